#!/bin/bash
# usage: tools_mut.sh <prop> <file> <python-regex-or-literal old> <new> [runs]
# applies a literal replacement (first occurrence) to /repo/<file>, runs the check, reverts.
prop=$1; file=$2; old=$3; new=$4; runs=${5:-3000}
cd /repo || exit 2
git diff --quiet || { echo "repo dirty"; exit 2; }
python3 - "$file" "$old" "$new" <<'PY'
import sys
p,old,new=sys.argv[1:4]
s=open(p).read()
if old not in s:
    print("PATTERN NOT FOUND"); sys.exit(3)
s=s.replace(old,new,1)
open(p,'w').write(s)
PY
rc=$?
if [ $rc -ne 0 ]; then git checkout -- .; exit $rc; fi
(export GOFLAGS=-mod=mod GOPROXY=off GOSUMDB=off; go build ./... ) || { echo "MUTANT DOES NOT BUILD"; git checkout -- .; exit 4; }
cd /verif && ./check $prop --runs $runs 2>&1 | grep -v "^HARNESS" | tail -6
cd /repo && git checkout -- .
