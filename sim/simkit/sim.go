package simkit

import (
	"sync/atomic"
	"container/heap"
	"context"
	"runtime/pprof"
	"unsafe"
	"fmt"
	"sort"
	"strconv"
	"strings"
	"sync"
	"testing"
	"testing/synctest"
	"time"
)

// Failure is an oracle violation observed during a run.
type Failure struct {
	Tag string `json:"tag"` // e.g. "C01/dup-bytes"
	Sig string `json:"sig"` // signature identifying the failing configuration / call site
	Msg string `json:"msg"`
}

type op struct {
	label string
	ch    chan struct{}
}

type event struct {
	at    time.Time
	seq   uint64
	label string
	run   func()
	done  bool // already run: still in the global heap until it reaches the top
}

type eventHeap []*event

func (h eventHeap) Len() int { return len(h) }
func (h eventHeap) Less(i, j int) bool {
	if !h[i].at.Equal(h[j].at) {
		return h[i].at.Before(h[j].at)
	}
	return h[i].seq < h[j].seq
}
func (h eventHeap) Swap(i, j int)  { h[i], h[j] = h[j], h[i] }
func (h *eventHeap) Push(x any)    { *h = append(*h, x.(*event)) }
func (h *eventHeap) Pop() any      { o := *h; n := len(o); x := o[n-1]; *h = o[:n-1]; return x }
func (h eventHeap) peek() *event   { return h[0] }

// Sim is one simulated run. Exactly one Sim is current per process.
type Sim struct {
	T     *Tape
	Seed  uint64
	Start time.Time

	mu      sync.Mutex
	parked  []*op
	arrival chan struct{}
	events  eventHeap             // all pending events by (time, sequence); run ones are dropped lazily
	byLabel map[string]*eventHeap // the same events per label: the top is that label's only candidate
	nev     int                   // pending events not yet run
	seq     uint64

	Steps    int
	MaxSteps int
	MaxTime  time.Duration
	Capped   bool
	CappedBy string
	// WatchSite selects yield sites whose passes are counted in WatchPasses (see passed)
	WatchSite   func(site string) bool
	WatchPasses int64
	SimElapsed time.Duration

	freeRun bool

	names    map[unsafe.Pointer]string
	children map[string]int
	live     map[string]int
	ExitAt   map[string]time.Duration // when a named goroutine finished (simulated time)
	StartAt  map[string]time.Duration
	ExitStep  map[string]int
	// NoYield > 0 suppresses the inserted yield points: an observer (harness code running
	// on a simulated goroutine) reads several pieces of repository state as one atomic
	// snapshot. Only one goroutine runs at a time, so a plain counter is enough.
	NoYield int
	parksBy map[string]int // interception points passed, per goroutine name
	StartStep map[string]int
	anon     int

	hash    uint64
	final   uint64
	frozen  bool
	pend    uint64 // order-independent sum of the trace lines emitted by goroutines since the last scheduler step
	Verbose bool
	Log     []string

	Stats    map[string]int
	Failures []Failure

	// fault knobs for the scheduler itself
	StallNum int // probability (x/1000) of a stall step when ops are parked
	// YieldMask decides which yield sites are active in this run.
	YieldOn func(site string) bool

	WatchdogSecs int

	cleanup []func()
}

// Cur is the current simulation (set while a run is in progress).
var Cur *Sim

func New(seed uint64, tape *Tape) *Sim {
	return &Sim{
		T: tape, Seed: seed,
		names:    map[unsafe.Pointer]string{},
		children: map[string]int{},
		live:     map[string]int{},
		ExitAt:   map[string]time.Duration{},
		StartAt:  map[string]time.Duration{},
		ExitStep:  map[string]int{},
		parksBy:   map[string]int{},
		StartStep: map[string]int{},
		Stats:    map[string]int{},
		MaxSteps: 40000,
		MaxTime:  10 * time.Minute,
		hash:     14695981039346656037,
	}
}

func (s *Sim) Now() time.Time { return time.Now() }

// Elapsed is simulated time since the start of the run.
func (s *Sim) Elapsed() time.Duration { return time.Since(s.Start) }

//go:norace
func (s *Sim) mix(str string) {
	h := s.hash
	for i := 0; i < len(str); i++ {
		h ^= uint64(str[i])
		h *= 1099511628211
	}
	h ^= 0xff
	h *= 1099511628211
	s.hash = h
}

// Trace adds a line to the event log (hash always, text when Verbose).
// Must be called with the sim lock held or from the scheduler.
//
//go:norace
func (s *Sim) trace(str string) {
	if s.pend != 0 {
		s.mix(strconv.FormatUint(s.pend, 16))
		s.pend = 0
	}
	s.mix(str)
	if s.Verbose {
		s.Log = append(s.Log, fmt.Sprintf("%6d t=%-12v %s", s.Steps, time.Since(s.Start), str))
	}
}

// Tracef is for simnet / props: records an event in the log.
//
//go:norace
func (s *Sim) Tracef(format string, a ...any) {
	// Lines traced by goroutines that run between two scheduler steps may arrive
	// in any order (a released goroutine can wake others through the code's own
	// channels): they enter the event-log hash as an order-independent sum, which
	// the next scheduler step folds in.
	h := uint64(14695981039346656037)
	mixs := func(str string) {
		for i := 0; i < len(str); i++ {
			h ^= uint64(str[i])
			h *= 1099511628211
		}
		h ^= 0xff
		h *= 1099511628211
	}
	mixs(format)
	for _, x := range a {
		switch v := x.(type) {
		case int:
			mixs(strconv.Itoa(v))
		case string:
			mixs(v)
		case bool:
			if v {
				mixs("T")
			} else {
				mixs("F")
			}
		case time.Duration:
			mixs(strconv.FormatInt(int64(v), 10))
		default:
			mixs(fmt.Sprint(v))
		}
	}
	raceOff()
	s.mu.Lock()
	s.pend += h
	if s.Verbose {
		s.Log = append(s.Log, fmt.Sprintf("%6d t=%-12v %s", s.Steps, time.Since(s.Start), format+" "+fmt.Sprint(a...)))
	}
	s.mu.Unlock()
	raceOn()
}

// ParksOf returns how many interception points the named goroutine has passed. Between
// two observations by one goroutine, "steps elapsed == its own parks" means that nothing
// else ran in between.
//
//go:norace
func (s *Sim) ParksOf(name string) int {
	raceOff()
	s.mu.Lock()
	n := s.parksBy[name]
	s.mu.Unlock()
	raceOn()
	return n
}

// StepNow returns the global event sequence number (scheduler step).
//
//go:norace
func (s *Sim) StepNow() int {
	raceOff()
	s.mu.Lock()
	n := s.Steps
	s.mu.Unlock()
	raceOn()
	return n
}

func (s *Sim) Hash() string {
	if s.frozen {
		return fmt.Sprintf("%016x", s.final)
	}
	return fmt.Sprintf("%016x", s.hash+s.pend*0x9e3779b97f4a7c15)
}

//go:norace
func (s *Sim) Stat(name string, d int) {
	raceOff()
	s.mu.Lock()
	s.Stats[name] += d
	s.mu.Unlock()
	raceOn()
}

//go:norace
func (s *Sim) Fail(tag, sig, format string, a ...any) {
	raceOff()
	s.mu.Lock()
	if len(s.Failures) < 20 {
		s.Failures = append(s.Failures, Failure{Tag: tag, Sig: sig, Msg: fmt.Sprintf(format, a...)})
	}
	s.mu.Unlock()
	raceOn()
}

//go:norace
func (s *Sim) Failed() bool {
	raceOff()
	s.mu.Lock()
	n := len(s.Failures)
	s.mu.Unlock()
	raceOn()
	return n > 0
}

// OnCleanup registers teardown actions (run before free-run).
func (s *Sim) OnCleanup(f func()) { s.cleanup = append(s.cleanup, f) }

// ---- goroutine identity -----------------------------------------------------

//go:linkname getProfLabel runtime/pprof.runtime_getProfLabel
func getProfLabel() unsafe.Pointer

// Goroutine identity: every goroutine started through Go/GoChild carries a
// distinct pprof label set; the label pointer (1.6 ns to read, against 15 us for
// parsing runtime.Stack) is the key of the name table. Goroutines started by
// uninstrumented library code inherit their parent's label and therefore its
// name.
//
//go:norace
func gkey() unsafe.Pointer { return getProfLabel() }

//go:norace
func (s *Sim) curName() string {
	id := gkey()
	raceOff()
	s.mu.Lock()
	n, ok := s.names[id]
	if !ok {
		s.anon++
		n = "anon" + strconv.Itoa(s.anon)
		s.Stats["anon_goroutines"]++
	}
	s.mu.Unlock()
	raceOn()
	return n
}

// Name returns the simulator's name of the calling goroutine.
func (s *Sim) Name() string { return s.curName() }

// Go starts a named goroutine belonging to the simulation.
//
//go:norace
func (s *Sim) Go(name string, f func()) {
	raceOff()
	s.mu.Lock()
	s.live[name]++
	s.mu.Unlock()
	raceOn()
	go s.run(name, f, false)
}

//go:norace
func (s *Sim) run(name string, f func(), child bool) {
	pprof.SetGoroutineLabels(pprof.WithLabels(context.Background(), pprof.Labels("g", name)))
	id := gkey()
	raceOff()
	s.mu.Lock()
	s.names[id] = name
	s.StartAt[name] = time.Since(s.Start)
	s.StartStep[name] = s.Steps
	s.mu.Unlock()
	raceOn()
	defer func() {
		raceOff()
		s.mu.Lock()
		delete(s.names, id)
		s.ExitAt[name] = time.Since(s.Start)
		s.ExitStep[name] = s.Steps
		s.live[name]--
		if s.live[name] == 0 {
			delete(s.live, name)
		}
		s.mu.Unlock()
		raceOn()
		// a goroutine that ends after a timer wake-up without passing another
		// interception point must still make the scheduler look again
		select {
		case s.arrival <- struct{}{}:
		default:
		}
	}()
	// when a new goroutine first runs is the scheduler's decision too (a yield site like the
	// others: active in the runs whose yield subset contains it), so that "started but not yet
	// running" windows - the code right behind a go statement against the code at the top of the
	// new goroutine - are explored and replayed instead of being left to the Go runtime
	// (goroutines started by name - by the world's set-up, on the scheduler's own goroutine - start
	// as they always did)
	if child {
		s.Yield("spawn")
	}
	f()
}

// GoChild starts a goroutine named after the calling goroutine
// (parent name + "." + per-parent child counter). Used by the `go` rewrite.
//
//go:norace
func (s *Sim) GoChild(f func()) {
	parent := s.curName()
	raceOff()
	s.mu.Lock()
	s.children[parent]++
	name := parent + "." + strconv.Itoa(s.children[parent])
	s.live[name]++
	s.mu.Unlock()
	raceOn()
	go s.run(name, f, true)
}

// Live returns the names of goroutines started through Go/GoChild that have
// not finished, sorted.
//
//go:norace
func (s *Sim) Live() []string {
	raceOff()
	s.mu.Lock()
	var out []string
	for n, c := range s.live {
		for i := 0; i < c; i++ {
			out = append(out, n)
		}
	}
	s.mu.Unlock()
	raceOn()
	sort.Strings(out)
	return out
}

// ---- parking ------------------------------------------------------------------

// Park is a scheduling point: the calling goroutine blocks until the
// scheduler releases it.
//
//go:norace
func (s *Sim) Park(site string) {
	if s.freeRun {
		return
	}
	name := s.curName()
	if name == "sched" {
		// the scheduler's own goroutine (world set-up and final oracles run on it, sometimes
		// calling instrumented code directly) is never suspended: there is nobody to release it
		return
	}
	o := &op{label: name + "|" + site, ch: make(chan struct{})}
	raceOff()
	s.mu.Lock()
	if s.freeRun {
		s.mu.Unlock()
		raceOn()
		return
	}
	s.parked = append(s.parked, o)
	s.parksBy[name]++
	s.mu.Unlock()
	select {
	case s.arrival <- struct{}{}:
	default:
	}
	<-o.ch
	raceOn()
}

// Yield is Park for sites inserted into repository code; only a per-run
// subset of the sites is active.
func (s *Sim) Yield(site string) {
	if s.freeRun || s.NoYield > 0 {
		s.passed(site)
		return
	}
	if s.YieldOn != nil && !s.YieldOn(site) {
		s.passed(site)
		return
	}
	s.Park("y:" + site)
	s.passed(site)
}

// passed counts, per watched site, the goroutines that went past the yield point (whether or
// not they parked there): the statement behind the site runs in the same scheduling slice, so
// "nobody passed site X between two instants" means the statement did not run in between.
func (s *Sim) passed(site string) {
	if s.WatchSite != nil && s.WatchSite(site) {
		atomic.AddInt64(&s.WatchPasses, 1)
	}
}

// Pick is used by the priority-select rewrite: returns the rotation for a
// select with n cases.
func (s *Sim) Pick(site string, n int) int {
	if s.freeRun {
		return 0
	}
	s.Park("s:" + site)
	raceOff()
	s.mu.Lock()
	k := s.T.Choose(n, "select")
	s.mu.Unlock()
	raceOn()
	return k
}

// At schedules fn to be run by the scheduler at simulated time now+d.
// Caller must NOT hold the lock.
//
//go:norace
func (s *Sim) At(d time.Duration, label string, fn func()) {
	raceOff()
	s.mu.Lock()
	s.atLocked(d, label, fn)
	s.mu.Unlock()
	raceOn()
}

//go:norace
func (s *Sim) atLocked(d time.Duration, label string, fn func()) {
	if d < 0 {
		d = 0
	}
	s.seq++
	ev := &event{at: time.Now().Add(d), seq: s.seq, label: label, run: fn}
	heap.Push(&s.events, ev)
	if s.byLabel == nil {
		s.byLabel = map[string]*eventHeap{}
	}
	lh := s.byLabel[label]
	if lh == nil {
		lh = &eventHeap{}
		s.byLabel[label] = lh
	}
	heap.Push(lh, ev)
	s.nev++
	select {
	case s.arrival <- struct{}{}:
	default:
	}
}

// Lock/Unlock give simnet access to the big simulation lock.
//
//go:norace
func (s *Sim) Lock() { raceOff(); s.mu.Lock() }

//go:norace
func (s *Sim) Unlock() { s.mu.Unlock(); raceOn() }

// AtLocked is At for callers holding the lock.
func (s *Sim) AtLocked(d time.Duration, label string, fn func()) { s.atLocked(d, label, fn) }

// StepLocked returns the step counter; caller holds the lock.
func (s *Sim) StepLocked() int { return s.Steps }

// TraceLocked records an event; caller holds the lock.
func (s *Sim) TraceLocked(str string) { s.trace(str) }

// ChooseLocked draws from the tape; caller holds the lock.
func (s *Sim) ChooseLocked(n int, label string) int { return s.T.Choose(n, label) }

// Choose draws from the tape (takes the lock).
//
//go:norace
func (s *Sim) Choose(n int, label string) int {
	raceOff()
	s.mu.Lock()
	k := s.T.Choose(n, label)
	s.mu.Unlock()
	raceOn()
	return k
}

// ---- scheduler loop -------------------------------------------------------------

type watchdog struct {
	mu   sync.Mutex
	last time.Time
	stop chan struct{}
}

// Run executes body as the root of a bubble: body sets the world up (starting
// goroutines through s.Go) and returns a done predicate; Run then schedules
// until done() is true and nothing is runnable, a cap is hit, or a failure is
// recorded. finish runs after teardown (census etc.).
func Run(t *testing.T, s *Sim, setup func() (done func() bool), finish func()) (err error) {
	defer func() {
		if r := recover(); r != nil {
			msg := fmt.Sprint(r)
			if strings.Contains(msg, "deadlock: main bubble goroutine has exited") {
				s.Stats["bubble_leftover"]++
				return
			}
			panic(r)
		}
	}()
	synctest.Test(t, func(t *testing.T) {
		Cur = s
		defer func() { Cur = nil }()
		s.Start = time.Now()
		s.arrival = make(chan struct{}, 1) // must be created inside the bubble
		pprof.SetGoroutineLabels(pprof.WithLabels(context.Background(), pprof.Labels("g", "sched")))
		s.names[gkey()] = "sched"
		done := setup()
		s.loop(done)
		s.SimElapsed = time.Since(s.Start)
		// the event log ends here: teardown below runs the leftovers freely
		s.mu.Lock()
		s.final, s.frozen = s.hash+s.pend*0x9e3779b97f4a7c15, true
		s.mu.Unlock()
		// teardown
		for i := len(s.cleanup) - 1; i >= 0; i-- {
			s.cleanup[i]()
		}
		s.mu.Lock()
		s.freeRun = true
		ops := s.parked
		s.parked = nil
		s.mu.Unlock()
		for _, o := range ops {
			o.ch <- struct{}{}
		}
		// let everything unwind; fire leftover events (deliveries no longer matter)
		for i := 0; i < 50; i++ {
			synctest.Wait()
			s.mu.Lock()
			ops := s.parked
			s.parked = nil
			s.mu.Unlock()
			if len(ops) == 0 {
				break
			}
			for _, o := range ops {
				o.ch <- struct{}{}
			}
		}
		synctest.Wait()
		if finish != nil {
			finish()
		}
	})
	return nil
}

//go:norace
func (s *Sim) loop(done func() bool) {
	idle := 0
	for {
		if s.Steps >= s.MaxSteps {
			s.Capped, s.CappedBy = true, "steps"
			return
		}
		if time.Since(s.Start) > s.MaxTime {
			s.Capped, s.CappedBy = true, "time"
			return
		}
		synctest.Wait()
		select {
		case <-s.arrival:
		default:
		}
		s.mu.Lock()
		nfail := len(s.Failures)
		now := time.Now()
		sort.Slice(s.parked, func(i, j int) bool { return s.parked[i].label < s.parked[j].label })
		nops := len(s.parked)
		ndue := 0
		// due events: all events at the earliest due instant share candidacy, but
		// events are FIFO per label prefix; to keep it simple only the heap head
		// and other events with the same timestamp are candidates.
		var due []*event
		for len(s.events) > 0 && s.events.peek().done {
			heap.Pop(&s.events)
		}
		if s.nev > 0 && !s.events.peek().at.After(now) {
			// candidates: per label the earliest due event (per-label FIFO) - the top of
			// that label's heap - ordered by (time, sequence). A flood of due deliveries
			// costs O(labels) per step, not O(events).
			for _, lh := range s.byLabel {
				if e := lh.peek(); !e.at.After(now) {
					due = append(due, e)
				}
			}
			sort.Slice(due, func(i, j int) bool {
				if !due[i].at.Equal(due[j].at) {
					return due[i].at.Before(due[j].at)
				}
				return due[i].seq < due[j].seq
			})
			ndue = len(due)
		}
		if nfail > 0 {
			s.mu.Unlock()
			return
		}
		if nops == 0 && ndue == 0 {
			var wait time.Duration
			hasEv := s.nev > 0
			if hasEv {
				wait = s.events.peek().at.Sub(now)
			}
			s.mu.Unlock()
			if !hasEv && done() {
				return
			}
			remaining := s.MaxTime - time.Since(s.Start)
			if !hasEv || wait > remaining {
				wait = remaining + time.Millisecond
			}
			tm := time.NewTimer(wait)
			select {
			case <-s.arrival:
				tm.Stop()
				idle = 0
			case <-tm.C:
				idle++
			}
			continue
		}
		idle = 0
		// choose
		n := nops + ndue
		stall := false
		if s.StallNum > 0 && nops > 0 && ndue == 0 {
			if s.T.Choose(1000, "stall?") >= 1000-s.StallNum {
				stall = true
			}
		}
		if stall {
			// let simulated time pass with operations parked: a slow node.
			d := time.Duration(1+s.T.Choose(2000, "stall-ms")) * time.Millisecond
			s.Stats["fault_stall"]++
			s.Steps++
			s.trace("stall " + d.String())
			s.mu.Unlock()
			tm := time.NewTimer(d)
			<-tm.C
			continue
		}
		k := s.T.Choose(n, "sched")
		s.Steps++
		if n > 1 {
			s.Stats["sched_choices"]++
		}
		if k < nops {
			o := s.parked[k]
			s.parked = append(s.parked[:k], s.parked[k+1:]...)
			s.trace(o.label)
			s.mu.Unlock()
			o.ch <- struct{}{}
		} else {
			e := due[k-nops]
			lh := s.byLabel[e.label]
			heap.Pop(lh) // e is the top of its label's heap
			if lh.Len() == 0 {
				delete(s.byLabel, e.label)
			}
			e.done = true
			s.nev--
			s.trace("ev:" + e.label)
			s.mu.Unlock()
			e.run()
		}
	}
}
