// Package simkit is the deterministic simulator core: choice tape, seeded
// scheduler over testing/synctest, goroutine naming, trace hashing.
package simkit

import (
	"math/rand/v2"
)

// Choice is one recorded decision.
type Choice struct {
	V     uint32 `json:"v"`
	N     uint32 `json:"n"`
	Label string `json:"l,omitempty"`
}

// Tape is the single source of every decision of a run. In generate mode
// values come from a PCG stream seeded by the run seed; in replay mode they
// come from a recorded array (zeros once it is exhausted: choice 0 is always
// the most benign alternative, so a truncated tape continues calmly).
type Tape struct {
	rng     *rand.Rand
	replay  []uint32
	replayM bool
	pos     int
	Rec     []Choice
	KeepLbl bool
}

func NewTape(seed uint64) *Tape {
	return &Tape{rng: rand.New(rand.NewPCG(seed, seed^0x9e3779b97f4a7c15))}
}

func ReplayTape(vals []uint32) *Tape {
	return &Tape{replay: vals, replayM: true}
}

// Values returns the consumed values (for replay files).
func (t *Tape) Values() []uint32 {
	out := make([]uint32, len(t.Rec))
	for i, c := range t.Rec {
		out[i] = c.V
	}
	return out
}

// Choose returns a value in [0,n). n<=1 consumes nothing.
func (t *Tape) Choose(n int, label string) int {
	if n <= 1 {
		return 0
	}
	var v uint32
	if t.replayM {
		if t.pos < len(t.replay) {
			v = t.replay[t.pos] % uint32(n)
		}
		t.pos++
	} else {
		v = uint32(t.rng.IntN(n))
	}
	c := Choice{V: v, N: uint32(n)}
	if t.KeepLbl {
		c.Label = label
	}
	t.Rec = append(t.Rec, c)
	return int(v)
}

// Range returns a value in [lo,hi] (inclusive); lo is the benign value.
func (t *Tape) Range(lo, hi int, label string) int {
	if hi <= lo {
		return lo
	}
	return lo + t.Choose(hi-lo+1, label)
}

// Prob is true with probability num/den; false is the benign value.
func (t *Tape) Prob(num, den int, label string) bool {
	if num <= 0 {
		return false
	}
	return t.Choose(den, label) >= den-num
}

// Weighted picks an index with the given weights; index 0 should be benign.
// Recorded as a choice over the number of alternatives (so that shrinking to
// 0 selects alternative 0) using an auxiliary draw for the weight.
func (t *Tape) Weighted(label string, w ...int) int {
	if t.replayM {
		return t.Choose(len(w), label)
	}
	tot := 0
	for _, x := range w {
		tot += x
	}
	r := t.rng.IntN(tot)
	k := 0
	for i, x := range w {
		if r < x {
			k = i
			break
		}
		r -= x
	}
	c := Choice{V: uint32(k), N: uint32(len(w))}
	if t.KeepLbl {
		c.Label = label
	}
	t.Rec = append(t.Rec, c)
	return k
}

// Pick returns one of the given ints.
func (t *Tape) Pick(label string, vals ...int) int {
	return vals[t.Choose(len(vals), label)]
}

// LogRange draws roughly log-uniformly in [lo,hi]; lo benign.
func (t *Tape) LogRange(lo, hi int, label string) int {
	if hi <= lo {
		return lo
	}
	// choose a magnitude bucket, then uniform inside
	span := hi - lo
	bits := 0
	for (1 << bits) <= span {
		bits++
	}
	b := t.Choose(bits+1, label+"/mag")
	if b == 0 {
		return lo
	}
	max := 1 << b
	if max > span+1 {
		max = span + 1
	}
	min := 1 << (b - 1)
	if min >= max {
		return lo + max - 1
	}
	return lo + min + t.Choose(max-min, label+"/v")
}

// Pick2 returns one of the given strings.
func (t *Tape) Pick2(label string, vals ...string) string {
	return vals[t.Choose(len(vals), label)]
}
