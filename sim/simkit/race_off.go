//go:build !race

package simkit

const RaceBuild = false

func raceOff() {}
func raceOn()  {}
