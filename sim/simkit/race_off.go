//go:build !race

package simkit

import "unsafe"

const RaceBuild = false

func raceOff() {}
func raceOn()  {}

func RaceRelease(p unsafe.Pointer) {}
func RaceAcquire(p unsafe.Pointer) {}
