//go:build race

package simkit

import (
	"runtime"
	"unsafe"
)

const RaceBuild = true

//go:norace
func raceOff() { runtime.RaceDisable() }

//go:norace
func raceOn() { runtime.RaceEnable() }

// RaceRelease / RaceAcquire let simulator stand-ins for synchronising library
// objects (sync.Pool) give the detector the happens-before edges the real
// object gives. Must be called outside raceOff/raceOn regions.
func RaceRelease(p unsafe.Pointer) { runtime.RaceReleaseMerge(p) }
func RaceAcquire(p unsafe.Pointer) { runtime.RaceAcquire(p) }
