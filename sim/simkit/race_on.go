//go:build race

package simkit

import "runtime"

const RaceBuild = true

//go:norace
func raceOff() { runtime.RaceDisable() }

//go:norace
func raceOn() { runtime.RaceEnable() }
