// Package simnet is the simulated network: stream pairs, listeners, packet
// sockets and a dial registry, all driven by the simkit scheduler and tape.
package simnet

import (
	"errors"
	"io"
	"net"
	"os"
	"strconv"
	"syscall"
	"time"

	"verif/sim/simkit"
)

// Cfg holds the per-run fault knobs of the network (drawn from the tape by
// the world builder; zero value = calm network).
type Cfg struct {
	SegPermille   int           // probability that a Write is cut into several segments
	TricklePerm   int           // probability that a cut write is delivered byte by byte
	ShortReadPerm int           // probability that a Read returns fewer bytes than available
	MaxLatency    time.Duration // per-segment delivery latency is drawn in [0,MaxLatency]
	LatencyPerm   int           // probability that a segment gets a non-zero latency
	Window        int           // receive window in bytes (0 = unlimited)
	RstDiscards   bool          // an RST discards data queued at the receiver
	ParkDeadlines bool          // SetDeadline calls are scheduling points too
	// EOFWithData: the read that takes the last byte before the peer's FIN reports io.EOF along with
	// the bytes (io.Reader allows it; crypto/tls does it when close_notify sits behind the last record)
	EOFWithData bool
}

type Net struct {
	S   *simkit.Sim
	Cfg Cfg
	// KeepReads makes every endpoint record its successful reads with timestamps.
	KeepReads bool

	nextConn int
	Pipes    []*Pipe
	ups      map[string]*Upstream
	Dials    []DialRec
	Resolve  map[string]net.IP
}

func New(s *simkit.Sim) *Net {
	return &Net{S: s, ups: map[string]*Upstream{}, Resolve: map[string]net.IP{}}
}

type Pipe struct {
	ID   int
	A, B *End // A = initiator (client / dialer), B = acceptor
}

type seg struct {
	data []byte
	fin  bool
	rst  bool
}

// ReadRec is one successful read (for timed oracles).
type ReadRec struct {
	At time.Duration
	N  int
	// CallAt: when the Read call was made; Req: the size of the buffer it was given
	CallAt time.Duration
	Req    int
}

// End is one endpoint of a simulated stream (or connected datagram) socket.
type End struct {
	n      *Net
	Name   string
	peer   *End
	local  net.Addr
	remote net.Addr
	dgram  bool

	rbuf    []byte
	msgs    [][]byte // dgram mode
	finRcvd bool
	rst     bool
	closed  bool
	wclosed bool
	rdl     time.Time
	wdl     time.Time
	rnotify chan struct{}
	wnotify chan struct{}

	inflight int       // bytes scheduled towards peer, not yet delivered
	lastAt   time.Time // last scheduled delivery instant towards peer
	sentRst  bool

	// statistics (read under the sim lock or after the run)
	ReadCalls     int
	BytesRead     int
	BytesWritten  int
	FirstReadTry  time.Duration
	HasFirstRead  bool
	Reads         []ReadRec
	KeepReads     bool
	WriteCalls    int
	ClosedAt      time.Duration
	ClosedStep    int
	IsClosedNow   bool
	CloseCalls    int
	CloseWriteAt  time.Duration
	DidCloseWrite bool
	SawEOFAt      time.Duration
	SawEOF        bool
	DeadlineSets  int
}

func (e *End) LocalAddr() net.Addr  { return e.local }
func (e *End) RemoteAddr() net.Addr { return e.remote }
func (e *End) Peer() *End           { return e.peer }

type simErr struct {
	msg     string
	timeout bool
}

func (e *simErr) Error() string   { return e.msg }
func (e *simErr) Timeout() bool   { return e.timeout }
func (e *simErr) Temporary() bool { return e.timeout }

func (e *End) opErr(op string, err error) error {
	netw := "tcp"
	if e.dgram {
		netw = "udp"
	}
	return &net.OpError{Op: op, Net: netw, Source: e.local, Addr: e.remote, Err: err}
}

func poke(ch chan struct{}) {
	select {
	case ch <- struct{}{}:
	default:
	}
}

func drain(ch chan struct{}) {
	select {
	case <-ch:
	default:
	}
}

// NewPipe creates a connected pair. Addresses must be *net.TCPAddr / *net.UDPAddr.
// Dgram reports whether the endpoint preserves message boundaries (UDP-like).
func (e *End) Dgram() bool { return e.dgram }

func (n *Net) NewPipe(aName, bName string, aAddr, bAddr net.Addr, dgram bool) *Pipe {
	n.S.Lock()
	defer n.S.Unlock()
	return n.newPipeLocked(aName, bName, aAddr, bAddr, dgram)
}

func (n *Net) newPipeLocked(aName, bName string, aAddr, bAddr net.Addr, dgram bool) *Pipe {
	n.nextConn++
	p := &Pipe{ID: n.nextConn}
	mk := func(name string, l, r net.Addr) *End {
		return &End{n: n, Name: name, local: l, remote: r, dgram: dgram,
			rnotify: make(chan struct{}, 1), wnotify: make(chan struct{}, 1)}
	}
	p.A = mk(aName, aAddr, bAddr)
	p.B = mk(bName, bAddr, aAddr)
	p.A.peer, p.B.peer = p.B, p.A
	n.Pipes = append(n.Pipes, p)
	return p
}

// latencyLocked draws a delivery latency and returns the delivery instant,
// monotone per direction.
func (e *End) deliveryDelayLocked() time.Duration {
	n := e.n
	var lat time.Duration
	if n.Cfg.MaxLatency > 0 && n.Cfg.LatencyPerm > 0 && n.S.ChooseLocked(1000, "lat?") >= 1000-n.Cfg.LatencyPerm {
		ms := int(n.Cfg.MaxLatency / time.Millisecond)
		if ms < 1 {
			ms = 1
		}
		lat = time.Duration(1+n.S.ChooseLocked(ms, "lat-ms")) * time.Millisecond
		n.S.Stats["fault_latency"]++
	}
	now := time.Now()
	at := now.Add(lat)
	if at.Before(e.lastAt) {
		at = e.lastAt
	}
	e.lastAt = at
	return at.Sub(now)
}

func (e *End) sendSegLocked(sg seg) {
	d := e.deliveryDelayLocked()
	peer := e.peer
	e.inflight += len(sg.data)
	e.n.S.AtLocked(d, "net>"+peer.Name, func() { e.deliver(sg) })
}

// deliver runs in the scheduler goroutine.
//
//go:norace
func (e *End) deliver(sg seg) {
	s := e.n.S
	s.Lock()
	peer := e.peer
	e.inflight -= len(sg.data)
	switch {
	case sg.rst:
		peer.rst = true
		if e.n.Cfg.RstDiscards {
			peer.rbuf = nil
			peer.msgs = nil
		}
		poke(peer.rnotify)
		poke(peer.wnotify)
	case peer.closed:
		// data or FIN for a socket that is gone: answer with RST (once)
		if len(sg.data) > 0 && !peer.sentRst {
			peer.sentRst = true
			peer.sendSegLocked(seg{rst: true})
		}
	case sg.fin:
		peer.finRcvd = true
		poke(peer.rnotify)
	default:
		if e.dgram {
			peer.msgs = append(peer.msgs, sg.data)
		} else {
			peer.rbuf = append(peer.rbuf, sg.data...)
		}
		poke(peer.rnotify)
	}
	poke(e.wnotify)
	s.Unlock()
}

func (e *End) Read(p []byte) (int, error) {
	s := e.n.S
	s.Park(e.Name + ".R")
	first := true
	var callAt time.Duration
	for {
		s.Lock()
		drain(e.rnotify)
		if first {
			first = false
			callAt = s.Elapsed()
			e.ReadCalls++
			if !e.HasFirstRead {
				e.HasFirstRead = true
				e.FirstReadTry = s.Elapsed()
			}
		}
		n, err, ok := e.tryReadLocked(p)
		if ok {
			if n > 0 {
				e.BytesRead += n
				if e.KeepReads || e.n.KeepReads {
					e.Reads = append(e.Reads, ReadRec{At: s.Elapsed(), N: n, CallAt: callAt, Req: len(p)})
				}
				poke(e.peer.wnotify)
			}
			if err == io.EOF && !e.SawEOF {
				e.SawEOF = true
				e.SawEOFAt = s.Elapsed()
			}
			if err != nil && n == 0 {
				poke(e.rnotify) // likewise for a second goroutine blocked reading this endpoint
			}
			if s.Verbose {
				s.TraceLocked(e.Name + ".R -> " + strconv.Itoa(n) + errStr(err))
			} else {
				s.TraceLocked(strconv.Itoa(n) + errStr(err))
			}
			s.Unlock()
			return n, err
		}
		dl := e.rdl
		s.Unlock()
		if dl.IsZero() {
			<-e.rnotify
		} else {
			tm := time.NewTimer(time.Until(dl))
			select {
			case <-e.rnotify:
				tm.Stop()
			case <-tm.C:
			}
		}
		s.Park(e.Name + ".R+")
	}
}

func errStr(err error) string {
	if err == nil {
		return ""
	}
	if err == io.EOF {
		return " EOF"
	}
	var ne net.Error
	if errors.As(err, &ne) && ne.Timeout() {
		return " timeout"
	}
	return " err"
}

func (e *End) tryReadLocked(p []byte) (int, error, bool) {
	if e.closed {
		return 0, e.opErr("read", net.ErrClosed), true
	}
	if !e.rdl.IsZero() && !time.Now().Before(e.rdl) {
		return 0, e.opErr("read", os.ErrDeadlineExceeded), true
	}
	if len(p) == 0 {
		return 0, nil, true
	}
	if e.dgram {
		if len(e.msgs) > 0 {
			m := e.msgs[0]
			e.msgs = e.msgs[1:]
			n := copy(p, m)
			return n, nil, true
		}
	} else if len(e.rbuf) > 0 {
		avail := len(e.rbuf)
		if avail > len(p) {
			avail = len(p)
		}
		n := avail
		if avail > 1 && e.n.Cfg.ShortReadPerm > 0 && e.n.S.ChooseLocked(1000, "short?") >= 1000-e.n.Cfg.ShortReadPerm {
			n = 1 + e.n.S.ChooseLocked(avail-1, "short-n")
			e.n.S.Stats["fault_short_read"]++
		}
		copy(p, e.rbuf[:n])
		e.rbuf = e.rbuf[n:]
		if len(e.rbuf) == 0 {
			e.rbuf = nil
			if e.n.Cfg.EOFWithData && e.finRcvd && !e.rst {
				e.n.S.Stats["fault_eof_with_data"]++
				return n, io.EOF, true
			}
		}
		return n, nil, true
	}
	if e.rst {
		return 0, e.opErr("read", syscall.ECONNRESET), true
	}
	if e.finRcvd {
		return 0, io.EOF, true
	}
	return 0, nil, false
}

// Buffered reports delivered-but-unread bytes plus bytes in flight towards e.
func (e *End) pendingLocked() int {
	n := len(e.rbuf) + e.peer.inflight
	for _, m := range e.msgs {
		n += len(m)
	}
	return n
}

func (e *End) Write(p []byte) (int, error) {
	s := e.n.S
	s.Park(e.Name + ".W")
	total := 0
	first := true
	for {
		s.Lock()
		drain(e.wnotify)
		if first {
			first = false
			e.WriteCalls++
		}
		var err error
		switch {
		case e.closed:
			err = e.opErr("write", net.ErrClosed)
		case e.wclosed:
			err = e.opErr("write", syscall.EPIPE)
		case !e.wdl.IsZero() && !time.Now().Before(e.wdl):
			err = e.opErr("write", os.ErrDeadlineExceeded)
		case e.rst:
			err = e.opErr("write", syscall.ECONNRESET)
		}
		if err != nil {
			s.TraceLocked("W" + errStr(err))
			// Two goroutines can be blocked writing to one endpoint (the relays of two peers of an
			// upstream group both write to the client) and the notification has one slot: a writer that
			// leaves with an error - a state every other writer of this endpoint meets too - passes the
			// notification on, so none of them stays blocked behind a lost wake-up. (Only then: passing
			// it on after every wake-up would make two waiters wake each other for ever.)
			poke(e.wnotify)
			s.Unlock()
			return total, err
		}
		if len(p) == 0 {
			s.Unlock()
			return total, nil
		}
		space := len(p)
		if w := e.n.Cfg.Window; w > 0 && !e.dgram {
			space = w - e.peer.pendingLocked()
			if space > len(p) {
				space = len(p)
			}
		}
		if space > 0 {
			chunk := make([]byte, space)
			copy(chunk, p[:space])
			p = p[space:]
			total += space
			e.BytesWritten += space
			e.segmentLocked(chunk)
			if len(p) == 0 {
				if s.Verbose {
					s.TraceLocked(e.Name + ".W " + strconv.Itoa(total))
				} else {
					s.TraceLocked(strconv.Itoa(total))
				}
				s.Unlock()
				return total, nil
			}
			s.Stats["write_blocked_on_window"]++
		}
		dl := e.wdl
		s.Unlock()
		if dl.IsZero() {
			<-e.wnotify
		} else {
			tm := time.NewTimer(time.Until(dl))
			select {
			case <-e.wnotify:
				tm.Stop()
			case <-tm.C:
			}
		}
		s.Park(e.Name + ".W+")
	}
}

// segmentLocked cuts chunk into segments per the fault knobs and schedules them.
func (e *End) segmentLocked(chunk []byte) {
	n := e.n
	if e.dgram || len(chunk) < 2 || n.Cfg.SegPermille == 0 || n.S.ChooseLocked(1000, "seg?") < 1000-n.Cfg.SegPermille {
		e.sendSegLocked(seg{data: chunk})
		return
	}
	n.S.Stats["fault_segmented_write"]++
	if n.Cfg.TricklePerm > 0 && len(chunk) <= 256 && n.S.ChooseLocked(1000, "trickle?") >= 1000-n.Cfg.TricklePerm {
		for i := range chunk {
			e.sendSegLocked(seg{data: chunk[i : i+1]})
		}
		return
	}
	maxCuts := 4
	if maxCuts > len(chunk)-1 {
		maxCuts = len(chunk) - 1
	}
	k := 1 + n.S.ChooseLocked(maxCuts, "cuts")
	for k > 0 && len(chunk) > 1 {
		c := 1 + n.S.ChooseLocked(len(chunk)-1, "cut-at")
		e.sendSegLocked(seg{data: chunk[:c]})
		chunk = chunk[c:]
		k--
	}
	if len(chunk) > 0 {
		e.sendSegLocked(seg{data: chunk})
	}
}

func (e *End) Close() error {
	s := e.n.S
	s.Park(e.Name + ".C")
	s.Lock()
	defer s.Unlock()
	e.CloseCalls++
	if e.closed {
		return e.opErr("close", net.ErrClosed)
	}
	e.closed = true
	e.ClosedAt = s.Elapsed()
	e.ClosedStep = s.StepLocked()
	if !e.wclosed {
		e.wclosed = true
		e.sendSegLocked(seg{fin: true})
	}
	e.rbuf = nil
	e.msgs = nil
	poke(e.rnotify)
	poke(e.wnotify)
	poke(e.peer.wnotify)
	s.TraceLocked(e.Name + ".C")
	return nil
}

// CloseWrite half-closes (stream sockets only; like *net.TCPConn).
func (e *End) closeWrite() error {
	s := e.n.S
	s.Park(e.Name + ".CW")
	s.Lock()
	defer s.Unlock()
	if e.closed {
		return e.opErr("close", net.ErrClosed)
	}
	if !e.wclosed {
		e.wclosed = true
		e.DidCloseWrite = true
		e.CloseWriteAt = s.Elapsed()
		e.sendSegLocked(seg{fin: true})
	}
	s.TraceLocked(e.Name + ".CW")
	return nil
}

// Abort is an abrupt close: data in flight from this end is lost, the peer
// gets an RST.
func (e *End) Abort() {
	s := e.n.S
	s.Park(e.Name + ".RST")
	s.Lock()
	defer s.Unlock()
	if e.closed {
		return
	}
	e.closed = true
	e.wclosed = true
	e.ClosedAt = s.Elapsed()
	e.rbuf = nil
	e.sentRst = true
	e.sendSegLocked(seg{rst: true})
	poke(e.rnotify)
	poke(e.wnotify)
	s.Stats["fault_abort"]++
	s.TraceLocked(e.Name + ".RST")
}

func (e *End) setDL(r, w bool, t time.Time) error {
	s := e.n.S
	if e.n.Cfg.ParkDeadlines {
		s.Park(e.Name + ".DL")
	}
	s.Lock()
	defer s.Unlock()
	if e.closed {
		return e.opErr("set", net.ErrClosed)
	}
	e.DeadlineSets++
	if r {
		e.rdl = t
		poke(e.rnotify)
	}
	if w {
		e.wdl = t
		poke(e.wnotify)
	}
	return nil
}

func (e *End) SetDeadline(t time.Time) error      { return e.setDL(true, true, t) }
func (e *End) SetReadDeadline(t time.Time) error  { return e.setDL(true, false, t) }
func (e *End) SetWriteDeadline(t time.Time) error { return e.setDL(false, true, t) }

// ReadDeadline returns the currently armed read deadline.
func (e *End) ReadDeadline() time.Time {
	e.n.S.Lock()
	defer e.n.S.Unlock()
	return e.rdl
}

// Snapshot copies the statistics under the lock.
func (e *End) Snapshot() End {
	e.n.S.Lock()
	defer e.n.S.Unlock()
	c := *e
	return c
}

func (e *End) IsClosed() bool {
	e.n.S.Lock()
	defer e.n.S.Unlock()
	return e.closed
}

// TCPEnd is a stream endpoint offering CloseWrite like *net.TCPConn.
type TCPEnd struct{ *End }

func (t TCPEnd) CloseWrite() error { return t.End.closeWrite() }

// Conn returns the net.Conn view appropriate for the socket type.
func (e *End) Conn() net.Conn {
	if e.dgram {
		return e
	}
	return TCPEnd{e}
}

var _ net.Conn = (*End)(nil)

func TCPAddr(ip string, port int) *net.TCPAddr { return &net.TCPAddr{IP: net.ParseIP(ip), Port: port} }
func UDPAddr(ip string, port int) *net.UDPAddr { return &net.UDPAddr{IP: net.ParseIP(ip), Port: port} }
