package simnet

import (
	"net"
	"strconv"
	"syscall"
	"time"
)

// Listener is a simulated net.Listener.
type Listener struct {
	n       *Net
	Name    string
	addr    net.Addr
	backlog []*End
	closed  bool
	tempErr int
	notify  chan struct{}

	Accepted  int
	ClosedAt  time.Duration
	CloseCall int
}

func (n *Net) Listen(name string, addr *net.TCPAddr) *Listener {
	return &Listener{n: n, Name: name, addr: addr, notify: make(chan struct{}, 1)}
}

func (l *Listener) Addr() net.Addr { return l.addr }

type tempError struct{}

func (tempError) Error() string   { return "simulated temporary accept error" }
func (tempError) Timeout() bool   { return false }
func (tempError) Temporary() bool { return true }

func (l *Listener) Accept() (net.Conn, error) {
	s := l.n.S
	s.Park(l.Name + ".A")
	for {
		s.Lock()
		drain(l.notify)
		if l.closed {
			s.TraceLocked(l.Name + ".A closed")
			s.Unlock()
			return nil, &net.OpError{Op: "accept", Net: "tcp", Addr: l.addr, Err: net.ErrClosed}
		}
		if l.tempErr > 0 {
			l.tempErr--
			s.Stats["fault_accept_temp_error"]++
			s.TraceLocked(l.Name + ".A temp")
			s.Unlock()
			return nil, &net.OpError{Op: "accept", Net: "tcp", Addr: l.addr, Err: tempError{}}
		}
		if len(l.backlog) > 0 {
			e := l.backlog[0]
			l.backlog = l.backlog[1:]
			l.Accepted++
			s.TraceLocked(l.Name + ".A " + e.Name)
			s.Unlock()
			return e.Conn(), nil
		}
		s.Unlock()
		<-l.notify
		s.Park(l.Name + ".A+")
	}
}

func (l *Listener) Close() error {
	s := l.n.S
	s.Park(l.Name + ".LC")
	s.Lock()
	defer s.Unlock()
	l.CloseCall++
	if l.closed {
		return &net.OpError{Op: "close", Net: "tcp", Addr: l.addr, Err: net.ErrClosed}
	}
	l.closed = true
	l.ClosedAt = s.Elapsed()
	// connections still in the backlog are reset
	for _, e := range l.backlog {
		e.closed = true
		e.wclosed = true
		e.sentRst = true
		e.sendSegLocked(seg{rst: true})
	}
	l.backlog = nil
	poke(l.notify)
	s.TraceLocked(l.Name + ".LC")
	return nil
}

// InjectTempError makes the next Accept calls fail with a temporary error.
func (l *Listener) InjectTempError(k int) {
	s := l.n.S
	s.Lock()
	l.tempErr += k
	poke(l.notify)
	s.Unlock()
}

func (l *Listener) IsClosed() bool {
	l.n.S.Lock()
	defer l.n.S.Unlock()
	return l.closed
}

// Connect is used by scripted clients: opens a connection to the listener and
// returns the client end. The server end appears in the backlog after a
// (tape-chosen) latency.
func (n *Net) Connect(l *Listener, name string, from *net.TCPAddr) (*End, error) {
	s := n.S
	s.Park(name + ".connect")
	s.Lock()
	defer s.Unlock()
	if l.closed {
		return nil, &net.OpError{Op: "dial", Net: "tcp", Addr: l.addr, Err: syscall.ECONNREFUSED}
	}
	p := n.newPipeLocked(name, "s"+name, from, l.addr, false)
	d := p.A.deliveryDelayLocked()
	s.AtLocked(d, "syn>"+l.Name, func() {
		s.Lock()
		if l.closed {
			p.B.closed = true
			p.B.wclosed = true
			p.B.sentRst = true
			p.B.sendSegLocked(seg{rst: true})
		} else {
			l.backlog = append(l.backlog, p.B)
			poke(l.notify)
		}
		s.Unlock()
	})
	s.TraceLocked(name + ".connect#" + strconv.Itoa(p.ID))
	return p.A, nil
}

var _ net.Listener = (*Listener)(nil)
