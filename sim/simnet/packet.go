package simnet

import (
	"net"
	"os"
	"strconv"
	"time"
)

// Dgram is a datagram as it arrived at / left the simulated UDP socket.
type Dgram struct {
	Peer string // client address (source for arrivals, destination for sends)
	Data []byte
	At   time.Duration
	Seq  int // arrival sequence number at the socket
	Step int // global event sequence number (scheduler step) of the arrival / send
	From *net.UDPAddr `json:"-"` // arrivals: the source address object (keeps an IPv6 zone as given)
}

// PacketSock is a simulated server-side UDP socket (net.PacketConn).
type PacketSock struct {
	// DeadlineErrs counts reads that failed because a read deadline set on this socket had passed
	DeadlineErrs int
	n      *Net
	Name   string
	addr   *net.UDPAddr
	queue  []Dgram
	closed bool
	rdl    time.Time
	notify chan struct{}
	// ReadErr, when >0, makes the next ReadFrom calls fail with a timeout error.
	timeoutErrs int

	Arrivals []Dgram // in arrival order (after drop/dup/reorder)
	Sent     []Dgram // WriteTo calls in order
	sendSeq  map[string]int
	inbox    map[string]chan struct{}
	lastAt   map[string]time.Time
}

func (n *Net) ListenPacket(name string, addr *net.UDPAddr) *PacketSock {
	return &PacketSock{n: n, Name: name, addr: addr, notify: make(chan struct{}, 1),
		sendSeq: map[string]int{}, inbox: map[string]chan struct{}{}, lastAt: map[string]time.Time{}}
}

func (p *PacketSock) LocalAddr() net.Addr { return p.addr }

func (p *PacketSock) ReadFrom(b []byte) (int, net.Addr, error) {
	s := p.n.S
	s.Park(p.Name + ".RF")
	for {
		s.Lock()
		drain(p.notify)
		if p.closed {
			s.TraceLocked(p.Name + ".RF closed")
			s.Unlock()
			return 0, nil, &net.OpError{Op: "read", Net: "udp", Addr: p.addr, Err: net.ErrClosed}
		}
		if p.timeoutErrs > 0 {
			p.timeoutErrs--
			s.Stats["fault_readfrom_timeout"]++
			s.Unlock()
			return 0, nil, &net.OpError{Op: "read", Net: "udp", Addr: p.addr, Err: os.ErrDeadlineExceeded}
		}
		if !p.rdl.IsZero() && !time.Now().Before(p.rdl) {
			p.DeadlineErrs++
			s.Unlock()
			return 0, nil, &net.OpError{Op: "read", Net: "udp", Addr: p.addr, Err: os.ErrDeadlineExceeded}
		}
		if len(p.queue) > 0 {
			d := p.queue[0]
			p.queue = p.queue[1:]
			n := copy(b, d.Data)
			if n < len(d.Data) {
				s.Stats["udp_truncated"]++
			}
			var a net.Addr = d.From
			if d.From == nil {
				a, _ = net.ResolveUDPAddr("udp", d.Peer)
			}
			s.TraceLocked(p.Name + ".RF " + d.Peer + " " + strconv.Itoa(n))
			s.Unlock()
			return n, a, nil
		}
		dl := p.rdl
		s.Unlock()
		if dl.IsZero() {
			<-p.notify
		} else {
			tm := time.NewTimer(time.Until(dl))
			select {
			case <-p.notify:
				tm.Stop()
			case <-tm.C:
			}
		}
		s.Park(p.Name + ".RF+")
	}
}

func (p *PacketSock) WriteTo(b []byte, addr net.Addr) (int, error) {
	s := p.n.S
	s.Park(p.Name + ".WT")
	s.Lock()
	defer s.Unlock()
	if p.closed {
		return 0, &net.OpError{Op: "write", Net: "udp", Addr: p.addr, Err: net.ErrClosed}
	}
	to := addr.String()
	p.sendSeq[to]++
	p.Sent = append(p.Sent, Dgram{Peer: to, Data: append([]byte(nil), b...), At: s.Elapsed(), Seq: len(p.Sent), Step: s.StepLocked()})
	if ch, ok := p.inbox[to]; ok {
		poke(ch)
	}
	s.TraceLocked(p.Name + ".WT " + to + " " + strconv.Itoa(len(b)))
	return len(b), nil
}

func (p *PacketSock) Close() error {
	s := p.n.S
	s.Park(p.Name + ".PC")
	s.Lock()
	defer s.Unlock()
	if p.closed {
		return &net.OpError{Op: "close", Net: "udp", Addr: p.addr, Err: net.ErrClosed}
	}
	p.closed = true
	poke(p.notify)
	s.TraceLocked(p.Name + ".PC")
	return nil
}

func (p *PacketSock) SetDeadline(t time.Time) error { return p.SetReadDeadline(t) }
func (p *PacketSock) SetReadDeadline(t time.Time) error {
	s := p.n.S
	s.Lock()
	p.rdl = t
	poke(p.notify)
	s.Unlock()
	return nil
}
func (p *PacketSock) SetWriteDeadline(t time.Time) error { return nil }

// UDPFaults configures what the network may do to a client's datagrams
// before they arrive.
type UDPFaults struct {
	DropPerm    int
	DupPerm     int
	ReorderPerm int
	MaxLatency  time.Duration
}

// Send is used by scripted clients: datagram from `from` to the socket.
// Drop/duplicate/reorder/delay happen here, before arrival.
func (p *PacketSock) Send(from *net.UDPAddr, data []byte, f UDPFaults) {
	s := p.n.S
	s.Park("udp:" + from.String() + ".send")
	s.Lock()
	defer s.Unlock()
	key := from.String()
	copies := 1
	if f.DropPerm > 0 && s.ChooseLocked(1000, "udp-drop?") >= 1000-f.DropPerm {
		copies = 0
		s.Stats["fault_udp_drop"]++
	} else if f.DupPerm > 0 && s.ChooseLocked(1000, "udp-dup?") >= 1000-f.DupPerm {
		copies = 2
		s.Stats["fault_udp_dup"]++
	}
	for i := 0; i < copies; i++ {
		var lat time.Duration
		if f.MaxLatency > 0 {
			lat = time.Duration(s.ChooseLocked(int(f.MaxLatency/time.Millisecond)+1, "udp-lat")) * time.Millisecond
		}
		now := time.Now()
		at := now.Add(lat)
		label := "udp>" + p.Name + "<" + key
		if f.ReorderPerm > 0 && s.ChooseLocked(1000, "udp-reorder?") >= 1000-f.ReorderPerm {
			// independent label: may overtake earlier datagrams of the same client
			label += "~" + strconv.Itoa(len(p.Arrivals)+len(p.queue)+i)
			s.Stats["fault_udp_reorder_eligible"]++
		} else {
			if at.Before(p.lastAt[key]) {
				at = p.lastAt[key]
			}
			p.lastAt[key] = at
		}
		d := append([]byte(nil), data...)
		s.AtLocked(at.Sub(now), label, func() {
			s.Lock()
			if !p.closed {
				dg := Dgram{Peer: key, Data: d, At: s.Elapsed(), Seq: len(p.Arrivals), Step: s.StepLocked(), From: from}
				p.Arrivals = append(p.Arrivals, dg)
				p.queue = append(p.queue, dg)
				poke(p.notify)
			}
			s.Unlock()
		})
	}
}

// InjectReadTimeouts makes the next k ReadFrom calls fail with a timeout error.
func (p *PacketSock) InjectReadTimeouts(k int) {
	s := p.n.S
	s.Lock()
	p.timeoutErrs += k
	poke(p.notify)
	s.Unlock()
}

// SentTo returns a snapshot of the datagrams written to addr.
func (p *PacketSock) SentSnapshot() []Dgram {
	p.n.S.Lock()
	defer p.n.S.Unlock()
	return append([]Dgram(nil), p.Sent...)
}

func (p *PacketSock) ArrivalsSnapshot() []Dgram {
	p.n.S.Lock()
	defer p.n.S.Unlock()
	return append([]Dgram(nil), p.Arrivals...)
}

func (p *PacketSock) QueueLen() int {
	p.n.S.Lock()
	defer p.n.S.Unlock()
	return len(p.queue)
}

func (p *PacketSock) IsClosed() bool {
	p.n.S.Lock()
	defer p.n.S.Unlock()
	return p.closed
}

var _ net.PacketConn = (*PacketSock)(nil)

func (p *PacketSock) DeadlineErrsSnapshot() int {
	p.n.S.Lock()
	defer p.n.S.Unlock()
	return p.DeadlineErrs
}
