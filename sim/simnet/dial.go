package simnet

import (
	"net"
	"os"
	"strconv"
	"strings"
	"syscall"
	"time"
)

const (
	Up = iota
	Refuse
	Blackhole
)

// Upstream is a simulated server reachable through Net.Dial.
type Upstream struct {
	n       *Net
	Addr    string // "10.1.0.1:80"
	Network string // "tcp" or "udp"
	State   int
	// Serve is run in its own simulated goroutine for every accepted
	// connection (idx counts accepted connections from 0).
	Serve func(c net.Conn, e *End, idx int)
	// DialLatency (ms) upper bound drawn per dial.
	MaxDialLatencyMs int

	Accepted int
	Conns    []*End // upstream-side ends, in accept order
}

// DialRec is one dial attempt observed by the registry.
type DialRec struct {
	At      time.Duration
	Done    time.Duration
	Network string
	Addr    string
	By      string // goroutine name
	OK      bool
	Timeout time.Duration
	Step    int // global event number when the dial completed
}

func (n *Net) AddUpstream(network, addr string, serve func(c net.Conn, e *End, idx int)) *Upstream {
	u := &Upstream{n: n, Addr: addr, Network: network, Serve: serve}
	n.S.Lock()
	n.ups[network+"/"+addr] = u
	n.S.Unlock()
	return u
}

func (u *Upstream) SetState(st int) {
	u.n.S.Lock()
	u.State = st
	u.n.S.Unlock()
}

func (u *Upstream) GetState() int {
	u.n.S.Lock()
	defer u.n.S.Unlock()
	return u.State
}

type dialTimeoutErr struct{}

func (dialTimeoutErr) Error() string   { return "i/o timeout" }
func (dialTimeoutErr) Timeout() bool   { return true }
func (dialTimeoutErr) Temporary() bool { return true }

func baseNet(network string) string {
	switch {
	case strings.HasPrefix(network, "tcp"):
		return "tcp"
	case strings.HasPrefix(network, "udp"):
		return "udp"
	}
	return network
}

// Dial is what the dial seams of the code under test call.
// timeout 0 = none (the OS default of about two minutes applies to blackholes).
func (n *Net) Dial(network, addr string, timeout time.Duration) (net.Conn, error) {
	s := n.S
	who := s.Name()
	s.Park("dial:" + addr)
	bn := baseNet(network)
	s.Lock()
	at := s.Elapsed()
	u := n.ups[bn+"/"+addr]
	lat := time.Duration(0)
	if u != nil && u.MaxDialLatencyMs > 0 {
		lat = time.Duration(s.ChooseLocked(u.MaxDialLatencyMs+1, "dial-lat")) * time.Millisecond
	}
	s.TraceLocked("dial " + addr)
	s.Unlock()
	rec := DialRec{At: at, Network: network, Addr: addr, By: who, Timeout: timeout}
	fail := func(err error) (net.Conn, error) {
		s.Lock()
		rec.Done = s.Elapsed()
		rec.Step = s.StepLocked()
		n.Dials = append(n.Dials, rec)
		s.Unlock()
		return nil, &net.OpError{Op: "dial", Net: network, Addr: addrOf(bn, addr), Err: err}
	}
	if timeout > 0 && lat >= timeout {
		time.Sleep(timeout)
		s.Park("dial+:" + addr)
		return fail(dialTimeoutErr{})
	}
	if lat > 0 {
		time.Sleep(lat)
		s.Park("dial+:" + addr)
	}
	s.Lock()
	st := Refuse
	if u != nil {
		st = u.State
	}
	if bn == "udp" && st == Refuse && u == nil {
		// UDP "dial" always succeeds locally; datagrams go nowhere.
		st = Up
	}
	s.Unlock()
	switch st {
	case Refuse:
		s.Stat("dial_refused", 1)
		return fail(&os.SyscallError{Syscall: "connect", Err: syscall.ECONNREFUSED})
	case Blackhole:
		s.Stat("dial_blackholed", 1)
		d := timeout - lat
		if timeout == 0 {
			d = 127 * time.Second
		}
		time.Sleep(d)
		s.Park("dial+:" + addr)
		return fail(dialTimeoutErr{})
	}
	s.Lock()
	idx := 0
	if u != nil {
		idx = u.Accepted
		u.Accepted++
	}
	cname := who + ">" + addr + "#" + strconv.Itoa(idx)
	local := addrOf(bn, "10.0.0.1:"+strconv.Itoa(40000+len(n.Pipes)))
	p := n.newPipeLocked(cname, "up:"+addr+"#"+strconv.Itoa(idx), local, addrOf(bn, addr), bn == "udp")
	if u != nil {
		u.Conns = append(u.Conns, p.B)
	}
	rec.OK = true
	rec.Done = s.Elapsed()
	rec.Step = s.StepLocked()
	n.Dials = append(n.Dials, rec)
	s.Unlock()
	if u != nil && u.Serve != nil {
		b := p.B
		s.Go("up:"+addr+"#"+strconv.Itoa(idx), func() { u.Serve(b.Conn(), b, idx) })
	}
	return p.A.Conn(), nil
}

func addrOf(bn, hostport string) net.Addr {
	host, port, err := net.SplitHostPort(hostport)
	if err != nil {
		return &net.TCPAddr{}
	}
	pn, _ := strconv.Atoi(port)
	ip := net.ParseIP(host)
	if bn == "udp" {
		return &net.UDPAddr{IP: ip, Port: pn}
	}
	return &net.TCPAddr{IP: ip, Port: pn}
}

// DialsSnapshot returns a copy of the dial log.
func (n *Net) DialsSnapshot() []DialRec {
	n.S.Lock()
	defer n.S.Unlock()
	return append([]DialRec(nil), n.Dials...)
}
