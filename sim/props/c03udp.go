package props

import (
	"bytes"
	"fmt"
	"testing"
	"time"

	"github.com/mholt/caddy-l4/layer4"
	"github.com/mholt/caddy-l4/modules/l4proxy"

	"verif/sim/simnet"
	"verif/sim/worlds"
)

// The datagram variant of the relay world: the real UDP server loop and its virtual
// connections in front of the real proxy handler dialling simulated UDP upstreams
// (no half-close on this transport: the relay ends when the association idles out,
// and a later datagram starts a fresh association with fresh upstream connections).
type c03uSample struct {
	Mode      string   `json:"mode"`
	Peers     int      `json:"peers_in_upstream"`
	Upstream  string   `json:"upstream_script"`
	Datagrams int      `json:"client_datagrams"`
	IdleGaps  int      `json:"gaps_beyond_idle_timeout"`
	Faults    simnet.UDPFaults `json:"udp_faults"`
	Arrived   int      `json:"datagrams_arrived"`
	UpConns   int      `json:"upstream_connections"`
	UpRecv    []int    `json:"upstream_received_bytes"`
	Replies   int      `json:"replies_to_client"`
	Left      []string `json:"goroutines_left"`
	SimTime   string   `json:"simulated_time"`
}

func runC03UDP(t *testing.T, e *worlds.Env, tier string) (bool, any) {
	sample := &c03uSample{Mode: "udp"}
	var uw *worlds.UDPWorld
	var ups *worlds.ProxyUps
	var addrs []string
	echo := false
	echoTimes := 1
	abortFirst := false
	client := worlds.UDPClientAddr(1)
	e.Run(t, func() func() bool {
		tp := e.T
		yieldKnob(e)
		npeers := 1 + tp.Weighted("npeers", 4, 1)
		echo = tp.Prob(1, 2, "up-echo")
		if e.S.Seed%3 == 0 {
			// wave 13: the echoing upstream answers with four copies of each datagram in one datagram
			// (up to 32 KiB: larger than anything the client sends). Seed-derived: earlier tapes stay valid.
			echoTimes = 4
		}
		ups = e.NewProxyUps()
		var dials []string
		for i := 0; i < npeers; i++ {
			addr := fmt.Sprintf("10.1.0.%d:53", i+1)
			addrs = append(addrs, addr)
			dials = append(dials, "udp/"+addr)
			ups.Add("udp", addr, tp.Pick("dial-lat-ms", 0, 0, 5))
		}
		// in one run of four the first upstream connection is cut by the upstream after its first
		// datagram (port unreachable): that association's upstream side is over while the client
		// may go on; what follows the idle expiry must be served by a fresh association as ever
		abortFirst = tp.Prob(1, 4, "upstream-aborts-first")
		ups.ScriptFor = func(addr string, idx int) *worlds.UpScript {
			sc := &worlds.UpScript{Mode: worlds.UpSink, AbortAt: -1}
			if abortFirst && idx == 0 {
				sc.AbortAt = 1
			}
			if echo && addr == addrs[0] {
				sc.Mode = worlds.UpEcho // one peer answers: replies of several peers would interleave arbitrarily
				sc.EchoTimes = echoTimes
			}
			return sc
		}
		sample.Peers = npeers
		sample.Upstream = map[bool]string{true: "first peer echoes every datagram", false: "sink"}[echo]
		h := &l4proxy.Handler{
			Upstreams:     l4proxy.UpstreamPool{&l4proxy.Upstream{Dial: dials}},
			LoadBalancing: &l4proxy.LoadBalancing{SelectionPolicy: &l4proxy.FirstSelection{}},
		}
		if err := h.Provision(e.Ctx); err != nil {
			panic(err)
		}
		h.VerifSetLogger(e.Log)
		e.S.OnCleanup(func() { _ = h.Cleanup() })
		routes := layer4.RouteList{layer4.VerifNewRoute(nil, []layer4.NextHandler{h})}
		uw = e.NewUDPWorld(routes, 3*time.Second)
		faults := simnet.UDPFaults{}
		if tp.Prob(1, 3, "udp-faults") {
			faults.DropPerm = tp.Pick("drop", 0, 100)
			faults.DupPerm = tp.Pick("dup", 0, 100)
			faults.ReorderPerm = tp.Pick("reorder", 0, 200)
			faults.MaxLatency = time.Duration(tp.Pick("udp-lat-ms", 0, 2, 20)) * time.Millisecond
		}
		sample.Faults = faults
		plan := &worlds.UDPClientPlan{ID: 1, Addr: client, Faults: faults}
		nd := 1 + tp.LogRange(0, 14, "ndgrams")
		key := e.S.Seed*613 + 1
		off := 0
		for j := 0; j < nd; j++ {
			sz := 12 + tp.Choose(64, "dsz")
			if tp.Prob(1, 5, "dsz-big") {
				v := tp.Choose(1200, "dsz2")
				sz = 200 + v
				if v%4 == 0 {
					// beyond 4 KiB, up to 8 KiB. (Larger ones are relayed in two pieces - the client->upstream
					// pump is io.Copy(io.Discard, tee), which reads 8192 bytes at a time; every byte arrives, in
					// order, which is all the statement asks: observed, not judged.)
					sz = 4097 + (v*4)%4000
				}
			}
			d := make([]byte, sz)
			for x := range d {
				d[x] = worlds.StreamByte(key, off+x)
			}
			off += sz
			var delay time.Duration
			switch tp.Weighted("gap", 8, 3, 1) {
			case 1:
				delay = time.Duration(1+tp.Choose(400, "gap-ms")) * time.Millisecond
			case 2:
				if sample.IdleGaps < 3 {
					delay = time.Duration(29500+tp.Choose(2000, "gap-idle")) * time.Millisecond // around the idle timeout
					sample.IdleGaps++
				}
			}
			plan.Sends = append(plan.Sends, worlds.UDPSend{Data: d, Delay: delay})
		}
		sample.Datagrams = nd
		uw.StartClient(plan)
		return func() bool {
			if !uw.Done() {
				return false
			}
			for _, r := range ups.RecsSnapshot() {
				if !r.Done {
					return false
				}
			}
			return true
		}
	}, func() {
		sample.SimTime = e.S.SimElapsed.String()
		sig := "udp"
		fail := func(kind, format string, a ...any) { e.S.Fail("C03/"+kind, sig, format, a...) }
		recs := ups.RecsSnapshot()
		left := liveWith(e, "usrv")
		var handlersLeft []string
		for _, g := range left {
			if g != "usrv" && g != "usrv.1" {
				handlersLeft = append(handlersLeft, g)
			}
		}
		sample.Left = handlersLeft
		sample.UpConns = len(recs)
		for _, r := range recs {
			sample.UpRecv = append(sample.UpRecv, len(r.Received))
		}
		// the server's socket is shared by all clients: nothing a client's connection does may leave a
		// deadline on it (the loop's reads would fail for everybody from then on)
		if n := uw.Sock.DeadlineErrsSnapshot(); n > 20 {
			fail("udp-socket-deadline", "%d reads of the server's UDP socket failed with a deadline error: a read deadline was set on the socket all clients share, and left there", n)
			return
		}
		if e.S.Capped {
			// bounded liveness: without half-close the relay ends when the association idles out
			// (30s after the client's last datagram); the time cap is minutes beyond that
			lk()
			last := uw.LastSendAt
			ulk()
			if e.S.CappedBy == "time" && e.S.SimElapsed-last > 3*time.Minute {
				fail("udp-relay-stuck", "the client sent its last datagram by %v; %v later the relay has not wound down (handler goroutines %v, upstream connections still open: %d)",
					last, e.S.SimElapsed-last, handlersLeft, openUp(recs))
			}
			return
		}
		var arr []simnet.Dgram
		for _, d := range uw.Sock.ArrivalsSnapshot() {
			if d.Peer == client.String() && len(d.Data) > 0 {
				arr = append(arr, d)
			}
		}
		sample.Arrived = len(arr)
		if abortFirst {
			// an association whose upstream side was cut mixes what it lost and what it relayed: here only
			// what holds regardless - every connection received a contiguous run of the client's
			// datagrams, a datagram that follows a silence longer than the idle timeout is served (by a
			// fresh association: the earlier one has expired), and everything is cleaned up
			for _, r := range recs {
				if len(r.Received) == 0 {
					continue
				}
				ok := false
				for i := range arr {
					if isPrefixOfConcat(r.Received, arr[i:]) {
						ok = true
						break
					}
				}
				if !ok {
					fail("upstream-stream", "upstream %s connection #%d received %d bytes that are not a contiguous run of the client's datagrams (first bytes % x)", r.Addr, r.Idx, len(r.Received), head(r.Received, 12))
					return
				}
			}
			for i := 1; i < len(arr); i++ {
				if arr[i].At-arr[i-1].At < 30600*time.Millisecond || len(arr[i].Data) < 8 {
					continue
				}
				served := false
				for _, r := range recs {
					if bytes.Contains(r.Received, arr[i].Data) {
						served = true
					}
				}
				if !served {
					fail("upstream-stream", "datagram #%d of the client arrived at %v, %v after the one before it (idle timeout 30s): every earlier association had expired, yet it reached no upstream connection", i, arr[i].At, arr[i].At-arr[i-1].At)
					return
				}
			}
			if n := openUp(recs); n > 0 {
				fail("upstream-not-closed", "%d of %d upstream connections were never closed by the proxy after its associations ended", n, len(recs))
				return
			}
			if len(handlersLeft) > 0 {
				fail("handler-stuck", "handler goroutines still alive after every association ended: %v", handlersLeft)
			}
			return
		}
		// client -> upstreams: per peer address, the connections in dial order each received a
		// contiguous in-order run of the client's arrivals; runs do not overlap
		excusable := func(d simnet.Dgram, beforeIdx int) bool {
			for _, q := range recs {
				if q.Idx >= beforeIdx {
					continue
				}
				if ex, ok := e.S.ExitStep[q.By]; !ok || ex >= d.Step {
					return true
				}
			}
			return false
		}
		for _, addr := range addrs {
			next := 0
			for _, r := range recs {
				if r.Addr != addr || len(r.Received) == 0 {
					continue
				}
				first := -1
				for i := next; i < len(arr); i++ {
					if isPrefixOfConcat(r.Received, arr[i:]) {
						first = i
						break
					}
				}
				if first < 0 {
					fail("upstream-stream", "upstream %s connection #%d received %d bytes that are not a contiguous in-order run of the client's datagrams after arrival #%d (first bytes % x)",
						addr, r.Idx, len(r.Received), next, head(r.Received, 12))
					return
				}
				// datagrams before this run that no connection received: legitimate only if an
				// earlier association was still alive when they arrived (they were queued there
				// and dropped when it ended); otherwise a fresh association had to relay them
				for i := next; i < first; i++ {
					if !excusable(arr[i], r.Idx) {
						fail("upstream-stream", "datagram #%d of the client (arrived at step %d) reached no connection of upstream %s although every earlier association had ended before it arrived", i, arr[i].Step, addr)
						return
					}
				}
				left := len(r.Received)
				j := first
				for left > 0 && j < len(arr) {
					left -= len(arr[j].Data)
					j++
				}
				next = j
			}
			for i := next; i < len(arr); i++ {
				if !excusable(arr[i], 1<<30) {
					fail("upstream-stream", "datagram #%d of the client (arrived at step %d) reached no connection of upstream %s although every earlier association had ended before it arrived", i, arr[i].Step, addr)
					return
				}
			}
		}
		// every peer of the group gets the same datagrams
		if len(addrs) > 1 {
			tot := map[string]int{}
			for _, r := range recs {
				tot[r.Addr] += len(r.Received)
			}
			if tot[addrs[0]] != tot[addrs[1]] {
				fail("upstream-stream", "the two peers of the upstream received different amounts: %v", tot)
				return
			}
		}
		// upstream -> client: echoed datagrams go to the client's address, each is one of its
		// datagrams, in arrival order
		sent := uw.Sock.SentSnapshot()
		sample.Replies = len(sent)
		nextA := 0
		for _, s := range sent {
			if s.Peer != client.String() {
				fail("client-stream", "a reply of %d bytes was sent to %s; the only client is %s", len(s.Data), s.Peer, client)
				return
			}
			found := -1
			for i := nextA; i < len(arr); i++ {
				if bytes.Equal(bytes.Repeat(arr[i].Data, echoTimes), s.Data) {
					found = i
					break
				}
			}
			if found < 0 {
				fail("client-stream", "reply #%d to the client (%d bytes, first % x) is not one of its datagrams echoed in order (the upstream answers with %d copies of each datagram in one datagram)", s.Seq, len(s.Data), head(s.Data, 12), echoTimes)
				return
			}
			nextA = found // duplicates delivered by the network may be echoed twice
		}
		if !echo && len(sent) > 0 {
			fail("client-stream", "%d datagrams were sent to the client although no upstream sends anything", len(sent))
			return
		}
		// cleanup: every upstream connection closed by the proxy, every handler returned
		if n := openUp(recs); n > 0 {
			fail("upstream-not-closed", "%d of %d upstream connections were never closed by the proxy after its associations ended", n, len(recs))
			return
		}
		if len(handlersLeft) > 0 {
			fail("handler-stuck", "handler goroutines still alive after every association ended: %v", handlersLeft)
		}
	})
	relayed := 0
	for _, n := range sample.UpRecv {
		relayed += n
	}
	if sample.UpConns > len(addrs) {
		e.S.Stats["probe_udp_fresh_association_redialled"]++
	}
	return relayed > 0 && (sample.Replies > 0 || sample.UpConns > len(addrs) || len(addrs) > 1), sample
}

func openUp(recs []*worlds.UpConnRec) int {
	n := 0
	for _, r := range recs {
		if !r.End.Peer().IsClosed() {
			n++
		}
	}
	return n
}
