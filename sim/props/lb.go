package props

import (
	"reflect"
	"context"
	"fmt"
	"net"
	"sync/atomic"
	"sort"
	"strings"
	"testing"
	"time"

	"github.com/caddyserver/caddy/v2"
	"github.com/mholt/caddy-l4/layer4"
	"github.com/mholt/caddy-l4/modules/l4proxy"

	"verif/sim/simnet"
	"verif/sim/worlds"
)

// lbWorld is the load-balancing world shared by C10 (selection contracts)
// and C11 (health, failure windows, retries, limits).
type lbWorld struct {
	e        *worlds.Env
	w        *worlds.TCPWorld
	h        *l4proxy.Handler
	rs       *worlds.RecSelector
	ups      *worlds.ProxyUps
	pool     l4proxy.UpstreamPool
	addrs    [][]string // per upstream: peer addresses
	policy   string
	choose   int
	failDur  time.Duration
	maxFails int
	tryDur   time.Duration
	tryInt   time.Duration
	maxConns int
	uhcc     int
	active   bool
	hInt     time.Duration
	hTmo     time.Duration
	clients  []*worlds.Client
	faults   []lbFault
	lastFaultAt time.Duration
	cancelOld   func()
	reloadedAt  time.Duration
}

// swapHandler delegates to the currently loaded proxy handler (config reload).
type swapHandler struct{ cur atomic.Pointer[l4proxy.Handler] }

func (s *swapHandler) Handle(cx *layer4.Connection, next layer4.Handler) error {
	return s.cur.Load().Handle(cx, next)
}

type lbFault struct {
	At    time.Duration
	Addr  string
	State int
	Step  int
}

type lbSample struct {
	Policy    string   `json:"policy"`
	Upstreams []string `json:"upstreams"`
	Passive   string   `json:"passive"`
	Active    string   `json:"active"`
	Limits    string   `json:"limits"`
	Retry     string   `json:"retry"`
	Clients   int      `json:"clients"`
	Faults    []string `json:"outages_and_recoveries"`
	Selects   int      `json:"select_events"`
	Unstable  int      `json:"selects_with_concurrent_change"`
	NilSel    int      `json:"selects_returning_none"`
	AvailSets int      `json:"distinct_availability_vectors"`
	Dials     int      `json:"dial_attempts"`
	DialFails int      `json:"dial_failures"`
	SimTime   string   `json:"simulated_time"`
	Reload    string   `json:"config_reload_at,omitempty"`
}

func buildLB(e *worlds.Env, forC11 bool) (*lbWorld, *lbSample) {
	tp := e.T
	L := &lbWorld{e: e}
	e.N.Cfg = netKnobs(e)
	e.N.Cfg.Window = 0
	yieldKnob(e)
	maxUp := 8
	if forC11 {
		maxUp = 4
	}
	nup := 1 + tp.Choose(maxUp, "n-upstreams")
	L.ups = e.NewProxyUps()
	// in one run of three some upstream connections are reset by the upstream after the first
	// bytes (the relay then closes that upstream connection itself, before the handler's cleanup)
	e.S.WatchSite = func(site string) bool { return strings.Contains(site, "countConn") }
	resetSome := tp.Prob(1, 3, "upstream-resets")
	earlyEOF := tp.Prob(1, 3, "upstream-early-eof")
	resetKey := e.S.Seed*0x9e3779b97f4a7c15 + 77
	L.ups.ScriptFor = func(addr string, idx int) *worlds.UpScript {
		sc := &worlds.UpScript{Mode: worlds.UpSink, AbortAt: -1}
		switch bits := (resetKey >> (uint(idx) % 48)) & 3; { // decided without the tape: called from connection goroutines
		case resetSome && bits == 0:
			sc.AbortAt = 1
		case earlyEOF && bits == 1:
			// the upstream ends its sending direction at once and keeps reading: the proxied
			// connection stays open (and counted) until the client is done
			sc.Mode, sc.SendLen = worlds.UpSource, int(resetKey>>50)&3
		}
		return sc
	}
	sample := &lbSample{}
	k := 0
	for i := 0; i < nup; i++ {
		npeers := 1
		if tp.Prob(1, 6, "multi-peer") {
			npeers = 2
		}
		var dials, as []string
		for j := 0; j < npeers; j++ {
			k++
			addr := fmt.Sprintf("10.1.%d.%d:80", i, j+1)
			if j > 0 && i > 0 && tp.Prob(1, 2, "shared-peer") {
				// a peer that also belongs to an earlier upstream: its counters are shared
				// (global peer pool), so one peer of this upstream can be busy or failed
				// while the other is not
				addr = L.addrs[tp.Choose(i, "shared-with")][0]
				as = append(as, addr)
				dials = append(dials, "tcp/"+addr)
				continue
			}
			as = append(as, addr)
			dials = append(dials, "tcp/"+addr)
			L.ups.Add("tcp", addr, tp.Pick("dial-lat-ms", 0, 0, 3, 40))
		}
		u := &l4proxy.Upstream{Dial: dials}
		L.pool = append(L.pool, u)
		L.addrs = append(L.addrs, as)
		sample.Upstreams = append(sample.Upstreams, strings.Join(as, ","))
	}
	// policy
	var inner l4proxy.Selector
	switch tp.Choose(6, "policy") {
	case 0:
		inner, L.policy = &l4proxy.FirstSelection{}, "first"
	case 1:
		inner, L.policy = &l4proxy.RoundRobinSelection{}, "round_robin"
	case 2:
		inner, L.policy = &l4proxy.IPHashSelection{}, "ip_hash"
	case 3:
		inner, L.policy = &l4proxy.LeastConnSelection{}, "least_conn"
	case 4:
		inner, L.policy = &l4proxy.RandomSelection{}, "random"
	default:
		rc := &l4proxy.RandomChoiceSelection{Choose: tp.Pick("choose", 0, 2, 3, 5)}
		_ = rc.Provision(e.Ctx)
		L.choose = rc.Choose
		inner, L.policy = rc, fmt.Sprintf("random_choose %d", rc.Choose)
	}
	sample.Policy = L.policy
	L.rs = &worlds.RecSelector{E: e, Inner: inner}
	hc := &l4proxy.HealthChecks{}
	usePassive := tp.Prob(2, 3, "passive")
	if usePassive {
		L.failDur = time.Duration(tp.Pick("fail-dur-ms", 1000, 100, 400, 5000)) * time.Millisecond
		L.maxFails = tp.Pick("max-fails", 1, 0, 2, 3)
		L.uhcc = tp.Pick("uhcc", 0, 0, 1, 2)
		hc.Passive = &l4proxy.PassiveHealthChecks{FailDuration: caddy.Duration(L.failDur), MaxFails: L.maxFails, UnhealthyConnectionCount: L.uhcc}
		sample.Passive = fmt.Sprintf("fail_duration=%v max_fails=%d unhealthy_connection_count=%d", L.failDur, L.maxFails, L.uhcc)
	}
	L.active = tp.Prob(1, 3, "active")
	// the active checks may belong to another handler that dials the same addresses (the peers,
	// and with them the verdict of the probes, are shared process-wide): the handler under test
	// then has no active checks of its own but must honour the shared verdict
	monitorOnly := L.active && tp.Prob(1, 4, "probes-by-another-handler")
	if L.active {
		L.hInt = time.Duration(tp.Pick("h-int-ms", 500, 100, 2000)) * time.Millisecond
		L.hTmo = time.Duration(tp.Pick("h-tmo-ms", 300, 100, 1000)) * time.Millisecond
		if !monitorOnly {
			hc.Active = &l4proxy.ActiveHealthChecks{Interval: caddy.Duration(L.hInt), Timeout: caddy.Duration(L.hTmo)}
		}
		sample.Active = fmt.Sprintf("interval=%v timeout=%v", L.hInt, L.hTmo)
		if monitorOnly {
			sample.Active += " (run by a second handler on the same addresses)"
		}
	}
	if tp.Prob(1, 3, "max-conns") {
		L.maxConns = tp.Pick("max-conns-n", 1, 2, 3)
		for _, u := range L.pool {
			u.MaxConnections = L.maxConns
		}
	}
	sample.Limits = fmt.Sprintf("max_connections=%d", L.maxConns)
	L.tryDur = time.Duration(tp.Pick("try-dur-ms", 0, 0, 300, 1000, 3000)) * time.Millisecond
	if L.tryDur > 0 {
		L.tryInt = time.Duration(tp.Pick("try-int-ms", 0, 50, 250, 500)) * time.Millisecond
	}
	sample.Retry = fmt.Sprintf("try_duration=%v try_interval=%v", L.tryDur, L.tryInt)
	L.h = &l4proxy.Handler{Upstreams: L.pool, LoadBalancing: &l4proxy.LoadBalancing{SelectionPolicy: L.rs, TryDuration: caddy.Duration(L.tryDur), TryInterval: caddy.Duration(L.tryInt)}}
	if usePassive || (L.active && !monitorOnly) {
		L.h.HealthChecks = hc
	}
	ctx1, cancel1 := caddy.NewContext(caddy.Context{Context: context.Background()})
	L.cancelOld = cancel1
	e.S.OnCleanup(func() { cancel1() })
	if err := L.h.Provision(ctx1); err != nil {
		panic(err)
	}
	L.h.VerifSetLogger(e.Log)
	// defaults applied by Provision
	if L.h.HealthChecks != nil && L.h.HealthChecks.Passive != nil {
		L.maxFails = L.h.HealthChecks.Passive.MaxFails
	}
	L.tryInt = time.Duration(L.h.LoadBalancing.TryInterval)
	if L.maxConns == 0 && L.uhcc > 0 {
		L.maxConns = L.uhcc // unhealthy_connection_count acts as max_connections
	}
	e.S.OnCleanup(func() { _ = L.h.Cleanup() })
	if monitorOnly {
		var pool2 l4proxy.UpstreamPool
		for _, u := range L.pool {
			pool2 = append(pool2, &l4proxy.Upstream{Dial: u.Dial})
		}
		mon := &l4proxy.Handler{Upstreams: pool2, HealthChecks: &l4proxy.HealthChecks{Active: &l4proxy.ActiveHealthChecks{Interval: caddy.Duration(L.hInt), Timeout: caddy.Duration(L.hTmo)}}}
		ctxm, cancelm := caddy.NewContext(caddy.Context{Context: context.Background()})
		if err := mon.Provision(ctxm); err != nil {
			panic(err)
		}
		mon.VerifSetLogger(e.Log)
		e.S.OnCleanup(func() { cancelm(); _ = mon.Cleanup() })
	}
	sw := &swapHandler{}
	sw.cur.Store(L.h)
	routes := layer4.RouteList{layer4.VerifNewRoute(nil, []layer4.NextHandler{sw})}
	L.w = e.NewTCPWorld(routes, 0)
	if forC11 && tp.Prob(1, 3, "reload") {
		// configuration reload: a new handler is provisioned on the same addresses (the
		// global peer pool keeps the counters), then the old one is cancelled and cleaned up
		at := time.Duration(tp.Choose(5000, "reload-ms")) * time.Millisecond
		sample.Reload = at.String()
		// the old handler needs its own context so that it can be cancelled
		e.S.Go("reload", func() {
			time.Sleep(at)
			e.S.Park("reload")
			pool2 := l4proxy.UpstreamPool{}
			for _, u := range L.pool {
				pool2 = append(pool2, &l4proxy.Upstream{Dial: u.Dial, MaxConnections: u.MaxConnections})
			}
			h2 := &l4proxy.Handler{Upstreams: pool2, LoadBalancing: &l4proxy.LoadBalancing{SelectionPolicy: L.rs, TryDuration: caddy.Duration(L.tryDur), TryInterval: caddy.Duration(L.tryInt)}}
			if L.h.HealthChecks != nil {
				hc2 := &l4proxy.HealthChecks{}
				if p := L.h.HealthChecks.Passive; p != nil {
					hc2.Passive = &l4proxy.PassiveHealthChecks{FailDuration: p.FailDuration, MaxFails: p.MaxFails, UnhealthyConnectionCount: p.UnhealthyConnectionCount}
				}
				if a := L.h.HealthChecks.Active; a != nil {
					hc2.Active = &l4proxy.ActiveHealthChecks{Interval: a.Interval, Timeout: a.Timeout}
				}
				h2.HealthChecks = hc2
			}
			ctx2, cancel2 := caddy.NewContext(caddy.Context{Context: context.Background()})
			if err := h2.Provision(ctx2); err != nil {
				cancel2()
				return
			}
			h2.VerifSetLogger(e.Log)
			old := sw.cur.Load()
			sw.cur.Store(h2)
			L.pool = pool2
			L.h = h2
			L.reloadedAt = e.S.Elapsed()
			// the old configuration goes away
			if L.cancelOld != nil {
				L.cancelOld()
			}
			_ = old.Cleanup()
			e.S.OnCleanup(func() { cancel2(); _ = h2.Cleanup() })
			e.S.Stat("fault_config_reload", 1)
		})
	}
	// fault schedule: outages and recoveries
	horizon := 6 * time.Second
	nf := tp.Weighted("n-faults", 2, 3, 3, 2)
	if forC11 {
		nf += 1
	}
	var all []string
	for _, as := range L.addrs {
		all = append(all, as...)
	}
	down := map[string]bool{}
	at := time.Duration(0)
	for i := 0; i < nf*2; i++ {
		at += time.Duration(tp.Choose(int(horizon/time.Millisecond)/(nf*2+1), "fault-gap-ms")) * time.Millisecond
		addr := all[tp.Choose(len(all), "fault-addr")]
		st := simnet.Refuse
		if down[addr] {
			st = simnet.Up
		}
		down[addr] = st != simnet.Up
		L.faults = append(L.faults, lbFault{At: at, Addr: addr, State: st})
		sample.Faults = append(sample.Faults, fmt.Sprintf("%v %s %s", at, addr, map[int]string{simnet.Up: "up", simnet.Refuse: "refuse"}[st]))
		if at > L.lastFaultAt {
			L.lastFaultAt = at
		}
	}
	faults := L.faults
	e.S.Go("faults", func() {
		prev := time.Duration(0)
		for i := range faults {
			f := &L.faults[i]
			if f.At > prev {
				time.Sleep(f.At - prev)
				prev = f.At
			}
			e.S.Park("fault:" + f.Addr)
			st := e.S.StepNow()
			lk()
			f.Step = st
			ulk()
			L.ups.Ups[f.Addr].SetState(f.State)
			e.S.Stat("fault_upstream_state_change", 1)
		}
	})
	// clients
	nc := 1 + tp.Choose(12, "n-clients")
	// a busy pool: enough early, long-lived connections that every upstream carries some, then
	// arrivals and departures spread over the time in which those end - selections then run
	// while the connection counts they read are moving, with no idle upstream to short-cut to
	busy := !forC11 && tp.Prob(1, 4, "busy-pool")
	holders := 0
	if busy {
		holders = 2*nup + tp.Choose(nup+1, "holders")
		nc = holders + 2 + tp.Choose(10, "n-late")
	}
	burst := !busy && tp.Prob(1, 2, "client-burst") // connections arriving together reach the policy concurrently
	burstAt := time.Duration(tp.Choose(int(horizon/time.Millisecond), "burst-ms")) * time.Millisecond
	for i := 1; i <= nc; i++ {
		plan := &worlds.ClientPlan{ID: i, Addr: simnet.TCPAddr(fmt.Sprintf("10.9.0.%d", 1+tp.Choose(5, "client-ip")), 50000+i), End: worlds.EndLinger}
		plan.StartAt = time.Duration(tp.Choose(int(horizon/time.Millisecond), "start-ms")) * time.Millisecond
		if burst {
			plan.StartAt = burstAt + time.Duration(tp.Choose(2, "burst-jitter"))*time.Millisecond
		}
		plan.Linger = time.Duration(1+tp.Choose(3000, "linger-ms")) * time.Millisecond
		if busy {
			if i <= holders {
				plan.StartAt = time.Duration(tp.Choose(100, "holder-start-ms")) * time.Millisecond
				plan.Linger = time.Duration(1000+tp.Choose(2000, "holder-linger-ms")) * time.Millisecond
			} else {
				plan.StartAt = time.Duration(1000+tp.Choose(2000, "late-start-ms")) * time.Millisecond
			}
		}
		m := &worlds.ConnModel{ID: i, Key: e.S.Seed*31 + uint64(i), Addr: plan.Addr.String()}
		m.App = worlds.Stream(m.Key, 1+tp.Choose(200, "len"))
		plan.App = m.App
		plan.Chunks = []worlds.Chunk{{N: len(m.App)}}
		e.Reg.Add(m)
		cl := e.StartClient(L.w.Ln, plan, m)
		L.w.Clients = append(L.w.Clients, cl)
		L.clients = append(L.clients, cl)
	}
	sample.Clients = nc
	return L, sample
}

func (L *lbWorld) done() bool {
	if !L.w.Done() {
		return false
	}
	for _, r := range L.ups.RecsSnapshot() {
		if !r.Done {
			return false
		}
	}
	// let the active checker observe the final state of the world
	if L.active && L.e.S.Elapsed() < L.lastFaultAt+L.hInt+L.hTmo+100*time.Millisecond {
		return false
	}
	return true
}

func availSet(st []worlds.UpState) []int {
	var a []int
	for i, s := range st {
		if s.Available {
			a = append(a, i)
		}
	}
	return a
}

func setKey(a []int) string { return fmt.Sprint(a) }

func contains(a []int, x int) bool {
	for _, v := range a {
		if v == x {
			return true
		}
	}
	return false
}

func init() {
	register(&Prop{
		ID:   "C10",
		Rule: "each run draws a pool of 1..8 upstreams (some multi-peer), one shipped selection policy with parameters, passive/active health checking, connection limits, an outage/recovery schedule and 1..12 client connections from a few client IPs that stay open for a while; the shipped policy runs inside the real proxy handler behind a recording wrapper. At every Select the result is checked against the set of upstreams the shipped available() reports at that instant (per-policy contract: membership, none iff empty, first, round-robin fairness, ip_hash stability, least_conn minimum). Pool size 0 is covered by direct invocation. Non-trivial: >=2 distinct availability vectors seen or some Select had unavailable members; distinct: event-log hashes.",
		Run:  runC10,
	})
	register(&Prop{
		ID:   "C11",
		Rule: "same world as C10 with 1..4 upstreams and more outages; the recorded history (dial attempts and outcomes with simulated timestamps, Select events with the peer counters read through an accessor, upstream connection lifetimes, handler start/exit) is checked against a reference model: passive failure windows (#failures in the last fail_duration >= max_fails <=> out of rotation, instants on a window edge skipped), counters never negative, retry spacing >= try_interval and total <= try_duration(+interval+latency), active checks converge to the real state within interval+timeout after the last fault, max_connections / unhealthy_connection_count respected for connections in their relay phase. Non-trivial: >=1 dial failure or limit reached; distinct: event-log hashes.",
		Run:  runC11,
	})
}

func runC10(t *testing.T, e *worlds.Env, tier string) (bool, any) {
	var L *lbWorld
	var sample *lbSample
	e.Run(t, func() func() bool {
		// pool size 0: direct invocation of every policy
		cx := layer4.WrapConnection(simnetDummy{}, nil, e.Log)
		for name, p := range map[string]l4proxy.Selector{"first": &l4proxy.FirstSelection{}, "round_robin": &l4proxy.RoundRobinSelection{}, "ip_hash": &l4proxy.IPHashSelection{},
			"least_conn": &l4proxy.LeastConnSelection{}, "random": &l4proxy.RandomSelection{}, "random_choose": &l4proxy.RandomChoiceSelection{Choose: 2}} {
			if r := p.Select(nil, cx); r != nil {
				e.S.Fail("C10/empty-pool", name, "policy %s returned an upstream for an empty pool", name)
			}
		}
		L, sample = buildLB(e, false)
		// ip_hash is a function of the client's IP: the same IP from several source ports, over
		// TCP and over UDP (virtual connections, or addresses declared by a PROXY header, are
		// not *net.TCPAddr), lands on the same upstream (direct invocation on the idle pool)
		if len(L.pool) >= 2 {
			iph := &l4proxy.IPHashSelection{}
			for _, udp := range []bool{false, true} {
				want := -1
				for port := 40000; port < 40006; port++ {
					var ra net.Addr = simnet.TCPAddr("10.9.7.7", port)
					if udp {
						ra = simnet.UDPAddr("10.9.7.7", port)
					}
					got := -1
					if u := iph.Select(L.pool, layer4.WrapConnection(addrConn{ra}, nil, e.Log)); u != nil {
						for i, x := range L.pool {
							if x == u {
								got = i
							}
						}
					}
					if want >= 0 && got != want {
						e.S.Fail("C10/ip_hash", "ip_hash", "ip_hash sent client 10.9.7.7 (%T) to upstream %d from source port %d and to upstream %d from port 40000, same available set", ra, got, port, want)
					}
					want = got
				}
			}
		}
		return L.done
	}, func() {
		if L == nil {
			return
		}
		evs := L.rs.Events
		c10dials := e.N.DialsSnapshot()
		sample.Selects = len(evs)
		sample.SimTime = e.S.SimElapsed.String()
		sets := map[string]bool{}
		sig := strings.Fields(L.policy)[0]
		fail := func(kind, format string, a ...any) { e.S.Fail("C10/"+kind, sig, format, a...) }
		type hk struct{ ip, set string }
		hashSeen := map[hk]int{}
		hashByIP := map[string][]worlds.SelectEvent{}
		var rrRun []int
		rrPrevEnd := -1
		rrSet := ""
		// Can the availability of some upstream have changed (and changed back) while a Select
		// call was running? Only then is a result that contradicts the snapshots taken before
		// and after it legitimate. Availability moves with: connection counts (only with a
		// connection limit), the verdict of an active probe (stored between the end of its dial
		// and the return of the probing goroutine), a passive failure being counted (between a
		// handler's failed dial and that handler's next selection or return) or forgotten
		// (fail_duration after it, on the simulated clock).
		selSteps := map[string][]int{}
		for _, ev := range evs {
			selSteps[ev.By] = append(selSteps[ev.By], ev.Step)
		}
		passive := L.failDur > 0 && L.maxFails > 0
		mayChange := func(ev worlds.SelectEvent) bool {
			if ev.Exclusive {
				return false
			}
			if L.maxConns > 0 {
				return true
			}
			for _, d := range c10dials {
				handler := strings.HasPrefix(d.By, "srv.")
				switch {
				case !handler && L.active:
					end, ok := e.S.ExitStep[d.By]
					if d.Step <= ev.EndStep && (!ok || end >= ev.Step) {
						return true
					}
				case handler && !d.OK && passive:
					end, ok := e.S.ExitStep[d.By]
					if !ok {
						end = 1 << 30
					}
					for _, s := range selSteps[d.By] {
						if s > d.Step && s < end {
							end = s
						}
					}
					if d.Step <= ev.EndStep && end >= ev.Step {
						return true
					}
					if t := d.Done + L.failDur; t >= ev.At-e.TimerLatency-time.Millisecond && t <= ev.EndAt+e.TimerLatency+time.Millisecond {
						return true
					}
				}
			}
			return false
		}
		for _, ev := range evs {
			A := availSet(ev.Before)
			sets[setKey(A)] = true
			if ev.Result == -1 {
				sample.NilSel++
			}
			if !ev.Stable {
				sample.Unstable++
				rrRun, rrSet = nil, ""
				// connection counts moved during the call; if availability did not, membership
				// of the result in the available set can still be judged
				if ev.AvailStable && !mayChange(ev) {
					e.S.Stats["probe_select_while_counts_moved_"+sig]++
					switch {
					case len(A) > 0 && ev.Result == -1:
						fail("none-selected", "policy %s returned none although upstreams %v stayed available throughout the call (pool size %d; connection counts were changing)", L.policy, A, len(ev.Before))
						return
					case ev.Result >= 0 && !contains(A, ev.Result):
						fail("unavailable-selected", "policy %s returned upstream %d which was not available before or after the call (available: %v)", L.policy, ev.Result, A)
						return
					}
				}
				continue
			}
			if mayChange(ev) {
				sample.Unstable++
				rrRun, rrSet = nil, ""
				continue // same snapshots before and after, but not necessarily in between
			}
			if len(A) < len(ev.Before) {
				e.S.Stats["probe_select_with_unavailable_member"]++
			}
			// "below its connection limit" and "fewest connections" are about real connections:
			// the counters the policies read must not exceed the connections that exist
			if msg := countBound(e, ev, c10dials); msg != "" {
				fail("count-leak", "%s", msg)
				return
			}
			// availability itself against the stated rule, from the raw per-peer counters:
			// every peer healthy, below max_fails recent failures, below the connection limit
			for i, st := range ev.Before {
				if i >= len(ev.After) || !reflect.DeepEqual(st, ev.After[i]) {
					continue // counters moved during the call
				}
				want := true
				for _, pr := range st.Peers {
					if pr.Unhealthy || (L.failDur > 0 && L.maxFails > 0 && pr.Fails >= L.maxFails) || (L.maxConns > 0 && pr.NumConns >= L.maxConns) {
						want = false
					}
				}
				if want != st.Available {
					fail("availability", "upstream %d (%s) reports available=%v, but its peers are %+v with max_fails=%d (passive=%v) and connection limit %d", i, st.Dial, st.Available, st.Peers, L.maxFails, L.failDur > 0, L.maxConns)
					return
				}
			}
			switch {
			case ev.Result == -2:
				fail("not-in-pool", "policy returned an upstream that is not in the pool")
				return
			case len(A) == 0 && ev.Result != -1:
				fail("unavailable-selected", "policy %s returned upstream %d although none is available", L.policy, ev.Result)
				return
			case len(A) > 0 && ev.Result == -1:
				fail("none-selected", "policy %s returned none although upstreams %v are available (pool size %d)", L.policy, A, len(ev.Before))
				return
			case len(A) > 0 && !contains(A, ev.Result):
				fail("unavailable-selected", "policy %s returned upstream %d which is not available (available: %v)", L.policy, ev.Result, A)
				return
			}
			if len(A) == 0 {
				rrRun, rrSet = nil, ""
				continue
			}
			switch sig {
			case "first":
				if ev.Result != A[0] {
					fail("first", "first returned upstream %d, earliest available is %d", ev.Result, A[0])
					return
				}
			case "least_conn":
				min := -1
				for _, i := range A {
					if min < 0 || ev.Before[i].Conns < min {
						min = ev.Before[i].Conns
					}
				}
				// (exact only when no connection counter was updated during the call: a count that went
				// down and up again leaves identical snapshots but not what the policy read)
				if ev.CountMoves == 0 && ev.Before[ev.Result].Conns != min {
					fail("least_conn", "least_conn returned upstream %d with %d connections; minimum among available %v is %d", ev.Result, ev.Before[ev.Result].Conns, A, min)
					return
				}
			case "ip_hash":
				ip := ev.Client[:strings.LastIndex(ev.Client, ":")]
				k := hk{ip, setKey(A)}
				if prev, ok := hashSeen[k]; ok && prev != ev.Result {
					fail("ip_hash", "ip_hash returned upstream %d for client %s with available set %v, earlier it returned %d for the same inputs", ev.Result, ip, A, prev)
					return
				}
				hashSeen[k] = ev.Result
				for _, o := range hashByIP[ip] {
					B := availSet(o.Before)
					// if B is a subset of A and still contains A's result, the result for B must be the same
					sub := true
					for _, x := range B {
						if !contains(A, x) {
							sub = false
						}
					}
					if sub && contains(B, ev.Result) && o.Result != ev.Result {
						fail("ip_hash", "ip_hash: client %s got upstream %d with available set %v but %d with the subset %v that still contains %d", ip, ev.Result, A, o.Result, B, ev.Result)
						return
					}
					sup := true
					for _, x := range A {
						if !contains(B, x) {
							sup = false
						}
					}
					if sup && contains(A, o.Result) && o.Result != ev.Result {
						fail("ip_hash", "ip_hash: client %s got upstream %d with available set %v but %d with the subset %v that still contains %d", ip, o.Result, B, ev.Result, A, o.Result)
						return
					}
				}
				hashByIP[ip] = append(hashByIP[ip], ev)
			case "round_robin":
				// the order of the recorded events is the order of the cursor only for calls that
				// did not overlap: a call that began before the previous one returned starts a new window
				if setKey(A) != rrSet || ev.Step <= rrPrevEnd {
					rrRun, rrSet = nil, setKey(A)
				}
				if ev.EndStep > rrPrevEnd {
					rrPrevEnd = ev.EndStep
				}
				rrRun = append(rrRun, ev.Result)
				n := len(A)
				if len(rrRun) >= n {
					win := rrRun[len(rrRun)-n:]
					seen := map[int]bool{}
					for _, x := range win {
						if seen[x] {
							fail("round_robin", "round_robin chose upstream %d twice within %d consecutive selections while %v stayed available (last selections %v)", x, n, A, win)
							return
						}
						seen[x] = true
					}
				}
			}
		}
		sample.AvailSets = len(sets)
		for _, msg := range countsAtEnd(e, L) {
			fail(msg[0], "%s", msg[1])
		}
	})
	if L == nil {
		return false, sample
	}
	nontrivial := sample.AvailSets >= 2 || e.S.Stats["probe_select_with_unavailable_member"] > 0
	return nontrivial, sample
}

// simnetDummy is a net.Conn that is never used for I/O (direct policy invocation).
type simnetDummy struct{}

func (simnetDummy) Read([]byte) (int, error)         { return 0, net.ErrClosed }
func (simnetDummy) Write([]byte) (int, error)        { return 0, net.ErrClosed }
func (simnetDummy) Close() error                     { return nil }
func (simnetDummy) LocalAddr() net.Addr              { return simnet.TCPAddr("10.0.0.1", 443) }
func (simnetDummy) RemoteAddr() net.Addr             { return simnet.TCPAddr("10.9.0.9", 50999) }
func (simnetDummy) SetDeadline(time.Time) error      { return nil }
func (simnetDummy) SetReadDeadline(time.Time) error  { return nil }
func (simnetDummy) SetWriteDeadline(time.Time) error { return nil }

func runC11(t *testing.T, e *worlds.Env, tier string) (bool, any) {
	var L *lbWorld
	var sample *lbSample
	e.Run(t, func() func() bool {
		L, sample = buildLB(e, true)
		return L.done
	}, func() {
		if L == nil || e.S.Capped {
			return
		}
		checkC11(e, L, sample)
	})
	if L == nil {
		return false, sample
	}
	return sample.DialFails > 0 || e.S.Stats["probe_limit_reached"] > 0, sample
}

func checkC11(e *worlds.Env, L *lbWorld, sample *lbSample) {
	sig := "lb"
	fail := func(kind, format string, a ...any) { e.S.Fail("C11/"+kind, sig, format, a...) }
	evs := L.rs.Events
	dials := e.N.DialsSnapshot()
	recs := L.ups.RecsSnapshot()
	sample.Selects, sample.Dials, sample.SimTime = len(evs), len(dials), e.S.SimElapsed.String()
	isHandler := func(by string) bool { return strings.HasPrefix(by, "srv.") }
	// passive failures per peer address
	type failure struct {
		at     time.Duration
		step   int // the dial failed
		settle int // the failing handler has certainly counted it: its next selection, or its return
		by     string
	}
	selStepsBy := map[string][]int{}
	for _, ev := range evs {
		selStepsBy[ev.By] = append(selStepsBy[ev.By], ev.Step)
	}
	fails := map[string][]failure{}
	for _, d := range dials {
		if !d.OK {
			sample.DialFails++
			if isHandler(d.By) {
				settle := 1 << 30
				if x, ok := e.S.ExitStep[d.By]; ok {
					settle = x
				}
				for _, s := range selStepsBy[d.By] {
					if s > d.Step && s < settle {
						settle = s
					}
				}
				fails[d.Addr] = append(fails[d.Addr], failure{d.Done, d.Step, settle, d.By})
			}
		}
	}
	lat := e.TimerLatency
	passive := L.failDur > 0 && L.h.HealthChecks != nil && L.h.HealthChecks.Passive != nil
	// active: last completed probe per peer before a step
	type probe struct {
		step int // step at which the probing goroutine returned (verdict stored)
		ok   bool
		at   time.Duration
		dial int // step at which its dial completed
	}
	probes := map[string][]probe{}
	for _, d := range dials {
		if !isHandler(d.By) {
			// a probe takes effect when its goroutine has stored the verdict, which is some
			// scheduler steps after the dial completed: until that goroutine has returned the
			// probe counts as in flight (step -1 = still running at the end of the run)
			st := -1
			if x, ok := e.S.ExitStep[d.By]; ok {
				st = x
			}
			probes[d.Addr] = append(probes[d.Addr], probe{st, d.OK, d.Done, d.Step})
		}
	}
	for _, ev := range evs {
		// counters never negative
		for i, st := range ev.Before {
			for _, p := range st.Peers {
				if p.Fails < 0 || p.NumConns < 0 {
					fail("negative-counter", "upstream %d peer %s: fails=%d conns=%d", i, p.Addr, p.Fails, p.NumConns)
					return
				}
			}
		}
		if msg := countBound(e, ev, dials); msg != "" {
			fail("count-leak", "%s", msg)
			return
		}
		if !ev.Stable {
			continue
		}
		for ui, as := range L.addrs {
			modelOut, ambiguous := false, false
			if passive && L.maxFails > 0 {
				for _, a := range as {
					n := 0
					for _, f := range fails[a] {
						switch {
						case f.step >= ev.Step:
							// not yet happened (or concurrent)
							if f.step == ev.Step {
								ambiguous = true
							}
						case f.settle > ev.Step || (f.settle == ev.Step && f.by != ev.By):
							// the dial has failed; the handler that saw it has not necessarily counted it yet
							ambiguous = true
						case ev.At < f.at+L.failDur:
							n++
						case ev.At <= f.at+L.failDur+lat:
							ambiguous = true // on the window edge
						}
					}
					if n >= L.maxFails {
						modelOut = true
					}
				}
			}
			if L.active {
				for _, a := range as {
					ps := probes[a]
					lastOK, seen := true, false
					for _, p := range ps {
						switch {
						case p.step >= 0 && p.step < ev.Step:
							lastOK, seen = p.ok, true
						case p.dial <= ev.Step:
							ambiguous = true // dial done, verdict not yet stored (or being stored)
						}
					}
					if seen && !lastOK {
						modelOut = true
					}
				}
			}
			// connection limit: connections in their relay phase
			relay := 0
			if L.maxConns > 0 {
				perPeer := map[string]int{}
				for _, r := range recs {
					if !isHandler(r.By) || r.FirstDataStep == 0 || r.FirstDataStep >= ev.Step {
						continue
					}
					pe := r.End.Peer().Snapshot()
					// (open throughout the call: a connection the proxy closed while the policy was still
					// reading the counters may or may not have been counted any more - found by the thorough
					// tier, seed 490241: selection and a finishing handler interleaved within one instant)
					if pe.CloseCalls > 0 && pe.ClosedStep <= ev.EndStep {
						continue
					}
					perPeer[r.Addr]++
				}
				for _, a := range as {
					if perPeer[a] > relay {
						relay = perPeer[a]
					}
				}
			}
			if ambiguous {
				continue
			}
			if modelOut && ev.Result == ui {
				fail("unhealthy-selected", "upstream %d (%v) was selected at %v although the model has it out of rotation (passive: >=%d failures within %v; active: last probe failed); implementation reports available=%v",
					ui, as, ev.At, L.maxFails, L.failDur, ev.Before[ui].Available)
				return
			}
			if !modelOut && L.maxConns == 0 && !ev.Before[ui].Available {
				fail("healthy-excluded", "upstream %d (%v) is reported unavailable at %v although no failure window or failed probe accounts for it (fails=%v)",
					ui, as, ev.At, ev.Before[ui].Peers)
				return
			}
			if L.maxConns > 0 && relay >= L.maxConns {
				e.S.Stats["probe_limit_reached"]++
				if ev.Result == ui {
					fail("limit-exceeded", "upstream %d (%v) was given another connection at %v while %d proxied connections to it were open (max_connections/unhealthy_connection_count = %d)",
						ui, as, ev.At, relay, L.maxConns)
					return
				}
			}
		}
	}
	// retries: per handler goroutine, consecutive selections no faster than try_interval; total duration bounded
	byG := map[string][]worlds.SelectEvent{}
	for _, ev := range evs {
		byG[ev.By] = append(byG[ev.By], ev)
	}
	maxDialLat := 40 * time.Millisecond
	for g, es := range byG {
		for i := 1; i < len(es); i++ {
			if gap := es[i].At - es[i-1].At; gap < L.tryInt {
				fail("retry-too-fast", "handler %s retried after %v, try_interval is %v", g, gap, L.tryInt)
				return
			}
		}
		start, ok1 := e.S.StartAt[g]
		exit, ok2 := e.S.ExitAt[g]
		if !ok1 || !ok2 {
			continue
		}
		connected := false
		for _, d := range dials {
			if d.By == g && d.OK {
				connected = true
			}
		}
		if len(L.addrs) == 1 && len(L.addrs[0]) == 1 || true {
			// multi-peer upstreams may connect one peer and fail the next; "connected" then means nothing
		}
		allFailed := !connected
		if L.reloadedAt > 0 && start <= L.reloadedAt && exit >= L.reloadedAt {
			continue // the handler's configuration was reloaded under it: its context is cancelled, retries stop
		}
		if allFailed && len(es) > 0 {
			if L.tryDur > 0 && exit-start < L.tryDur {
				fail("gave-up-early", "handler %s never connected and returned after %v; try_duration is %v", g, exit-start, L.tryDur)
				return
			}
			bound := L.tryDur + L.tryInt + time.Duration(len(es)+1)*(maxDialLat+2*lat) + 10*time.Millisecond
			if exit-start > bound {
				fail("gave-up-late", "handler %s never connected and returned only after %v; try_duration %v + try_interval %v (+dial latency) = %v", g, exit-start, L.tryDur, L.tryInt, bound)
				return
			}
			if len(es) > 1 && L.tryDur == 0 {
				fail("retried-without-try-duration", "handler %s selected %d times although try_duration is 0", g, len(es))
				return
			}
		}
	}
	// active checks converge: after the last fault + interval + timeout every peer's flag equals the real state
	if L.active && e.S.SimElapsed >= L.lastFaultAt+L.hInt+L.hTmo+50*time.Millisecond {
		final := map[string]bool{}
		for ui, u := range L.pool {
			for pi, p := range u.VerifPeers() {
				addr := L.addrs[ui][pi]
				up := L.ups.Ups[addr].GetState() == simnet.Up
				final[addr] = up
				if p.Unhealthy == up {
					fail("active-check-stale", "peer %s: real state up=%v since %v, unhealthy flag=%v at %v (interval %v, timeout %v)", addr, up, L.lastFaultAt, p.Unhealthy, e.S.SimElapsed, L.hInt, L.hTmo)
					return
				}
			}
		}
	}
	// counters at the end
	for _, msg := range countsAtEnd(e, L) {
		fail(msg[0], "%s", msg[1])
	}
	_ = sort.Ints
}


// countBound: a peer never counts more connections than there are handlers that have
// connected to it and are still running (each handler counts its connection once, from
// the moment the whole upstream is dialled until it returns). "" = holds.
func countBound(e *worlds.Env, ev worlds.SelectEvent, dials []simnet.DialRec) string {
	for ui, st := range ev.Before {
		for _, p := range st.Peers {
			bound := 0
			perG := map[string]bool{}
			for _, d := range dials {
				if !d.OK || !strings.HasPrefix(d.By, "srv.") || d.Addr != p.Addr || d.Step > ev.Step || perG[d.By] {
					continue
				}
				if x, ok := e.S.ExitStep[d.By]; ok && x < ev.Step {
					continue
				}
				perG[d.By] = true
				bound++
			}
			if p.NumConns > bound {
				return fmt.Sprintf("upstream %d peer %s counts %d open connections at %v, but only %d running handlers have a connection to it", ui, p.Addr, p.NumConns, ev.At, bound)
			}
		}
	}
	return ""
}

// countsAtEnd: no negative counter; zero connections counted once every handler has returned.
func countsAtEnd(e *worlds.Env, L *lbWorld) [][2]string {
	var out [][2]string
	handlersLeft := 0
	for _, g := range e.S.Live() {
		if strings.HasPrefix(g, "srv.") {
			handlersLeft++
		}
	}
	for ui, u := range L.pool {
		for _, p := range u.VerifPeers() {
			if handlersLeft == 0 && p.NumConns != 0 {
				out = append(out, [2]string{"count-leak", fmt.Sprintf("upstream %d peer %s still counts %d open connections after every handler has returned", ui, p.Addr, p.NumConns)})
			}
			if p.Fails < 0 || p.NumConns < 0 {
				out = append(out, [2]string{"negative-counter", fmt.Sprintf("upstream %d peer %s: fails=%d conns=%d at the end", ui, p.Addr, p.Fails, p.NumConns)})
			}
		}
	}
	return out
}


// addrConn is simnetDummy with a chosen remote address.
type addrConn struct{ remote net.Addr }

func (addrConn) Read([]byte) (int, error)         { return 0, net.ErrClosed }
func (addrConn) Write([]byte) (int, error)        { return 0, net.ErrClosed }
func (addrConn) Close() error                     { return nil }
func (addrConn) LocalAddr() net.Addr              { return simnet.TCPAddr("10.0.0.1", 443) }
func (c addrConn) RemoteAddr() net.Addr           { return c.remote }
func (addrConn) SetDeadline(time.Time) error      { return nil }
func (addrConn) SetReadDeadline(time.Time) error  { return nil }
func (addrConn) SetWriteDeadline(time.Time) error { return nil }
