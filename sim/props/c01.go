package props

import (
	"bytes"
	"crypto/tls"
	"fmt"
	"testing"
	"time"

	"github.com/mholt/caddy-l4/layer4"

	"verif/sim/simnet"
	"verif/sim/worlds"
)

// netKnobs draws the per-run network fault configuration ("swarm": each run
// enables its own subset of fault kinds).
func netKnobs(e *worlds.Env) simnet.Cfg {
	var c simnet.Cfg
	t := e.T
	if t.Prob(2, 3, "k-seg") {
		c.SegPermille = t.Pick("k-seg-p", 100, 400, 900)
		if t.Prob(1, 3, "k-trickle") {
			c.TricklePerm = t.Pick("k-trickle-p", 100, 500)
		}
	}
	if t.Prob(1, 2, "k-short") {
		c.ShortReadPerm = t.Pick("k-short-p", 50, 300, 800)
	}
	if t.Prob(1, 2, "k-lat") {
		c.LatencyPerm = t.Pick("k-lat-p", 100, 500, 1000)
		c.MaxLatency = time.Duration(t.Pick("k-lat-max", 1, 5, 40)) * time.Millisecond
	}
	if t.Prob(1, 4, "k-win") {
		c.Window = t.Pick("k-win-n", 1500, 64, 1, 4096, 65536)
	}
	c.RstDiscards = t.Prob(1, 2, "k-rstdiscard")
	c.EOFWithData = t.Prob(1, 6, "k-eof-with-data")
	return c
}

func yieldKnob(e *worlds.Env) {
	// a per-run subset of the inserted yield sites is active
	mode := e.T.Weighted("k-yield", 2, 2, 1)
	switch mode {
	case 0:
		e.S.YieldOn = func(string) bool { return false }
	case 1:
		e.S.YieldOn = nil // all
	default:
		salt := uint32(e.T.Choose(1<<16, "k-yield-salt"))
		e.S.YieldOn = func(site string) bool {
			h := salt
			for i := 0; i < len(site); i++ {
				h = h*16777619 ^ uint32(site[i])
			}
			return h&1 == 0
		}
	}
}

type needClass struct{ lo, hi, w int }

var needClasses = []needClass{
	{0, 0, 3}, {1, 8, 6}, {9, 200, 4}, {2040, 2056, 3}, {4090, 4100, 2}, {5000, 8192, 2}, {8193, 9000, 1},
}

func genNeed(e *worlds.Env) int {
	ws := make([]int, len(needClasses))
	for i, c := range needClasses {
		ws[i] = c.w
	}
	c := needClasses[e.T.Weighted("need-class", ws...)]
	return e.T.Range(c.lo, c.hi, "need")
}

type genOpts struct {
	allowNever bool
	allowFail  bool
	wrappers   bool // throttle / tee
	maxDepth   int
	appLen     int
	maxRoutes  int
	noEcho     bool
}

func genMatcher(e *worlds.Env, b *Builder, o *genOpts) MSpec {
	m := MSpec{ID: b.id("m"), Need: genNeed(e), Mode: e.T.Choose(4, "m-mode")}
	w := []int{5, 2, 3, 0, 0}
	if o.allowNever {
		w[3] = 1
	}
	if o.allowFail {
		w[4] = 1
	}
	m.Kind = e.T.Weighted("m-kind", w...)
	if m.Kind == VContent {
		m.Thr = e.T.Pick("m-thr", 128, 64, 192, 256)
		if m.Need == 0 {
			m.Need = 1
		}
	}
	m.Not = e.T.Prob(1, 8, "m-not")
	if m.Not && e.T.Prob(1, 3, "m-not-and") {
		// not{ m AND a second stream-reading matcher }: both read the same bytes
		a := MSpec{ID: b.id("m"), Need: genNeed(e), Mode: e.T.Choose(4, "m-mode"), Kind: VYes}
		if e.T.Prob(1, 2, "m-and-content") {
			a.Kind, a.Thr = VContent, e.T.Pick("m-thr", 128, 64, 192, 256)
			if a.Need == 0 {
				a.Need = 1
			}
		}
		m.And = &a
	}
	if m.Not && e.T.Prob(1, 3, "m-not-or") {
		// not{ {m ...} OR {o} }: the second set is reached only when the first has said no
		o := MSpec{ID: b.id("m"), Need: genNeed(e), Mode: e.T.Choose(4, "m-mode"), Kind: VYes}
		if e.T.Prob(2, 3, "m-or-content") {
			o.Kind, o.Thr = VContent, e.T.Pick("m-thr", 128, 64, 192, 256)
			if o.Need == 0 {
				o.Need = 1
			}
		}
		m.Or = &o
	}
	return m
}

func genRouteList(e *worlds.Env, b *Builder, o *genOpts, depth int) *RLSpec {
	rl := &RLSpec{}
	n := 1 + e.T.Choose(o.maxRoutes, "n-routes")
	for i := 0; i < n; i++ {
		rl.Routes = append(rl.Routes, genRoute(e, b, o, depth))
	}
	return rl
}

func genConsumeK(e *worlds.Env, o *genOpts) int {
	switch e.T.Weighted("consume-class", 3, 3, 2, 1) {
	case 0:
		return e.T.Range(0, 8, "consume-k")
	case 1:
		return e.T.Range(9, 300, "consume-k")
	case 2:
		return e.T.Range(2000, 2100, "consume-k")
	default:
		return e.T.Range(4000, 9000, "consume-k")
	}
}

func genRoute(e *worlds.Env, b *Builder, o *genOpts, depth int) RSpec {
	var r RSpec
	nsets := e.T.Weighted("n-sets", 5, 2, 2) // 1, 0, 2
	switch nsets {
	case 0:
		nsets = 1
	case 1:
		nsets = 0
	}
	for s := 0; s < nsets; s++ {
		var set []MSpec
		nm := 1 + e.T.Weighted("n-matchers", 3, 1)
		for k := 0; k < nm; k++ {
			set = append(set, genMatcher(e, b, o))
		}
		r.Sets = append(r.Sets, set)
	}
	// handlers
	if o.wrappers && e.T.Prob(1, 6, "h-throttle") {
		r.Handlers = append(r.Handlers, HSpec{Kind: "throttle", Name: b.id("thr"),
			Rate: float64(e.T.Pick("thr-rate", 1000000, 100000, 20000, 10000000)), Burst: e.T.Pick("thr-burst", 4096, 1, 100, 2048, 65536)})
	}
	if e.T.Prob(1, 3, "h-consume") {
		r.Handlers = append(r.Handlers, HSpec{Kind: "consume", Name: b.id("con"), K: genConsumeK(e, o)})
	}
	if o.wrappers && e.T.Prob(1, 5, "h-tee") {
		mark := b.id("teemark")
		r.Handlers = append(r.Handlers, HSpec{Kind: "mark", Name: mark}, HSpec{Kind: "tee", Name: b.id("tee"),
			Branch: []HSpec{{Kind: "recorder", Name: b.id("branch"), StartMark: mark, MaxBuf: e.T.Pick("rec-maxbuf", 4096, 1, 64, 3000)}}})
	}
	end := e.T.Weighted("h-end", 4, 2, 2, 2)
	if end == 2 && depth >= o.maxDepth {
		end = 0
	}
	if end == 1 && o.noEcho {
		end = 0
	}
	switch end {
	case 0:
		r.Handlers = append(r.Handlers, HSpec{Kind: "recorder", Name: b.id("rec"), MaxBuf: e.T.Pick("rec-maxbuf", 4096, 1, 64, 3000, 20000)})
	case 1:
		r.Handlers = append(r.Handlers, HSpec{Kind: "mark", Name: b.id("echo"), K: 0}, HSpec{Kind: "echo", Name: "echo"})
	case 2:
		r.Handlers = append(r.Handlers, HSpec{Kind: "subroute", Name: b.id("sub"), Sub: genRouteList(e, b, o, depth+1)})
		if e.T.Prob(1, 3, "h-after-sub") {
			// the subroute's fallback is a consuming handler
			r.Handlers = append(r.Handlers, HSpec{Kind: "recorder", Name: b.id("recfb"), MaxBuf: e.T.Pick("rec-maxbuf", 4096, 1, 64, 3000)})
		}
	case 3:
		// non-terminal: routing continues with the following routes
		if len(r.Handlers) == 0 {
			r.Handlers = append(r.Handlers, HSpec{Kind: "consume", Name: b.id("con"), K: genConsumeK(e, o)})
		}
	}
	return r
}

func genAppLen(e *worlds.Env, tier string) int {
	maxLarge := 4*layer4.MaxMatchingBytes + 3*layer4.VerifPrefetchChunkSize
	if tier == "thorough" {
		maxLarge = 12 * layer4.MaxMatchingBytes
	}
	switch e.T.Weighted("app-class", 1, 5, 4, 5, 5) {
	case 0:
		return 0
	case 1:
		return e.T.Range(1, 64, "app-len")
	case 2:
		return e.T.Range(65, 2048, "app-len")
	case 3:
		return e.T.Range(2049, 9000, "app-len")
	default:
		return e.T.Range(9001, maxLarge, "app-len")
	}
}

type c01Sample struct {
	Config  *RLSpec `json:"config"`
	Prelude string  `json:"prelude"`
	AppLen  int     `json:"app_len"`
	Chunks  int     `json:"client_chunks"`
	End     int     `json:"client_end"`
	Net     simnet.Cfg `json:"net"`
	Handlers []worlds.HandlerCall `json:"handler_calls"`
	Prefetches int  `json:"server_reads"`
}

func init() {
	register(&Prop{
		ID:   "C01",
		Rule: "nine runs in ten: each run draws a route list (depth<=3: spec matchers with read patterns, proxy_protocol/tls preludes, throttle, tee, subroute, consume-k, echo/recorder), a position-coded client stream (0..4x matching limit, more in thorough), a client write schedule and a network fault subset (segmentation, short reads, latency, window, abort). One run in ten is the datagram variant: UDP datagrams prefetched for a matcher that needs n bytes (spanning datagrams) and read back by consume/recorder handlers with arbitrary buffers (partial datagram reads); the stream is the concatenation of the datagrams. Non-trivial: the server needed >=2 socket reads before a consuming handler ran, or a fault fired; distinct: distinct event-log hashes.",
		Run:  runC01,
	})
}

func runC01(t *testing.T, e *worlds.Env, tier string) (bool, any) {
	if e.T.Prob(1, 10, "udp") {
		return runC01UDP(t, e, tier)
	}
	var w *worlds.TCPWorld
	var cl *worlds.Client
	var model *worlds.ConnModel
	var spec *RLSpec
	prelude := ""
	sample := &c01Sample{}
	e.Run(t, func() func() bool {
		e.N.Cfg = netKnobs(e)
		yieldKnob(e)
		b := &Builder{E: e, Tag: "C01"}
		o := &genOpts{wrappers: true, maxDepth: 2, maxRoutes: 3, allowFail: e.T.Prob(1, 10, "allow-fail")}
		appLen := genAppLen(e, tier)
		if appLen > 4096 && e.N.Cfg.Window > 0 && e.N.Cfg.Window < 1500 {
			e.N.Cfg.Window = 1500 // keep step counts of large streams bounded
		}
		o.appLen = appLen
		tls12 := false
		usePP := e.T.Prob(1, 4, "pre-pp")
		useTLS := e.T.Prob(1, 6, "pre-tls")
		spec = &RLSpec{}
		plan := &worlds.ClientPlan{ID: 1, Addr: worlds.ClientAddr(1)}
		model = &worlds.ConnModel{ID: 1, Key: e.S.Seed*7 + 1, Addr: plan.Addr.String()}
		model.App = worlds.Stream(model.Key, appLen)
		plan.App = model.App
		// prelude routes operate on the raw stream
		preMatch := func(real string) [][]MSpec {
			switch e.T.Weighted("pre-match", 3, 2, 2) {
			case 0:
				return [][]MSpec{{{ID: b.id("m"), Real: real}}}
			case 1:
				return nil
			default:
				// a spec matcher that asks for many raw bytes first: the buffer grows
				// well past the header before the wrapping handler runs
				return [][]MSpec{{{ID: b.id("m"), Need: e.T.Pick("pre-need", 1, 16, 108, 2049, 4097, 6000), Mode: e.T.Choose(4, "m-mode"), Kind: VYes}}}
			}
		}
		if usePP {
			prelude += "pp"
			src := simnet.TCPAddr("192.0.2.77", 4242)
			h := PPHeader{Version: 1 + e.T.Choose(2, "pp-ver"), Src: src, Dst: simnet.TCPAddr("198.51.100.1", 443)}
			if e.T.Prob(1, 5, "pp-v6") {
				h.Src = simnet.TCPAddr("2001:db8::77", 4242)
				h.Dst = simnet.TCPAddr("2001:db8::1", 443)
			}
			plan.Pre = h.Encode()
			model.Pre = plan.Pre
			model.App = append(append([]byte(nil), plan.Pre...), model.App...)
			e.Reg.Alias(h.Src.String(), model)
			spec.Routes = append(spec.Routes, RSpec{Sets: preMatch("proxy_protocol"), Handlers: []HSpec{{Kind: "pp", Name: "pp"}, {Kind: "ppmark", Name: "ppdone"}}})
		}
		if useTLS {
			prelude += "tls"
			plan.TLS = &tls.Config{InsecureSkipVerify: true, ServerName: "a.sim.test"}
			if e.T.Prob(1, 2, "tls12") {
				// TLS 1.2: a client that writes and closes at once makes tls.Conn.Read
				// return the last bytes together with io.EOF (legal for an io.Reader)
				plan.TLS.MaxVersion = tls.VersionTLS12
				tls12 = true
			}
			spec.Routes = append(spec.Routes, RSpec{Sets: preMatch("tls"), Handlers: []HSpec{{Kind: "tls", Name: "tls"}}})
		}
		body := genRouteList(e, b, o, 0)
		if useTLS || (usePP && e.T.Prob(1, 3, "pre-nest")) {
			// put the body in a subroute of the last prelude route instead of sibling routes
			last := &spec.Routes[len(spec.Routes)-1]
			last.Handlers = append(last.Handlers, HSpec{Kind: "subroute", Name: b.id("sub"), Sub: body})
		} else {
			spec.Routes = append(spec.Routes, body.Routes...)
		}
		sig := spec.Kinds()
		if prelude != "" && sig == "plain" {
			sig = prelude
		}
		routes := b.RouteList(spec, "chain="+sig)
		// client schedule; keep total delay well under the matching timeout
		plan.Chunks = e.MakeChunks(appLen, 20*time.Millisecond)
		endW := []int{6, 2, 1, 1}
		if tls12 {
			endW = []int{2, 6, 1, 1} // mostly: write everything, then close at once
		}
		switch e.T.Weighted("client-end", endW...) {
		case 0:
			plan.End = worlds.EndHalfClose
		case 1:
			plan.End = worlds.EndClose
		case 2:
			plan.End = worlds.EndAbort
			plan.AbortAt = e.T.Range(0, appLen, "abort-at")
		case 3:
			plan.End = worlds.EndLinger
			plan.Linger = time.Duration(e.T.Pick("linger", 10, 1000, 5000)) * time.Millisecond
		}
		e.Reg.Add(model)
		w = e.NewTCPWorld(routes, 0)
		cl = e.StartClient(w.Ln, plan, model)
		w.Clients = append(w.Clients, cl)
		sample.Config, sample.Prelude, sample.AppLen, sample.Chunks, sample.End, sample.Net = spec, prelude, appLen, len(plan.Chunks), plan.End, e.N.Cfg
		return w.Done
	}, func() {
		// final oracle: echo returns exactly what was sent from the echo offset on
		echoOff := -1
		for _, hc := range model.HandlerCalls {
			if len(hc.Handler) >= 4 && hc.Handler[:4] == "echo" {
				echoOff = hc.Offset
			}
		}
		sig := "chain=" + spec.Kinds()
		if prelude != "" && spec.Kinds() == "plain" {
			sig = "chain=" + prelude
		}
		if !e.S.Capped && cl != nil {
			rcv := cl.Received
			if echoOff < 0 {
				if len(rcv) > 0 {
					e.S.Fail("C01/unexpected-reply", sig, "client received %d bytes although no echo handler ran", len(rcv))
				}
			} else {
				exp := model.App[echoOff:]
				if len(rcv) > len(exp) || !bytes.Equal(rcv, exp[:len(rcv)]) {
					e.S.Fail("C01/echo-mismatch", sig, "echo from offset %d: client received %d bytes that are not a prefix of the %d bytes it sent: got % x want % x",
						echoOff, len(rcv), len(exp), head(rcv, 16), head(exp, 16))
				} else if cl.Plan.End == worlds.EndHalfClose && !model.Aborted && cl.RecvEOF && cl.WriteErr == nil && len(rcv) != len(exp) {
					e.S.Fail("C01/echo-short", sig, "echo from offset %d: client half-closed after %d bytes and read EOF after only %d of %d echoed bytes",
						echoOff, cl.Wrote, len(rcv), len(exp))
				}
			}
		}
		sample.Handlers = model.HandlerCalls
		if cl != nil && cl.End != nil {
			sample.Prefetches = cl.End.Peer().Snapshot().ReadCalls
		}
	})
	nontrivial := false
	if cl != nil && cl.End != nil && len(model.HandlerCalls) > 0 {
		if cl.End.Peer().ReadCalls >= 3 {
			nontrivial = true
		}
	}
	for k, v := range e.S.Stats {
		if v > 0 && len(k) > 6 && k[:6] == "fault_" && len(model.HandlerCalls) > 0 {
			nontrivial = true
		}
	}
	if len(model.HandlerCalls) > 0 {
		e.S.Stats["probe_handler_ran"]++
	}
	if len(model.Recorders) > 0 {
		e.S.Stats["probe_recorder_ran"]++
	}
	_ = fmt.Sprint
	return nontrivial, sample
}

func head(b []byte, n int) []byte {
	if len(b) > n {
		return b[:n]
	}
	return b
}
