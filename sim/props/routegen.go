package props

import (
	"crypto/tls"
	"fmt"
	"net"
	"strings"
	"time"

	"github.com/caddyserver/caddy/v2"
	"github.com/caddyserver/caddy/v2/modules/caddytls"
	"github.com/mholt/caddy-l4/layer4"
	"github.com/mholt/caddy-l4/modules/l4echo"
	"github.com/mholt/caddy-l4/modules/l4proxyprotocol"
	"github.com/mholt/caddy-l4/modules/l4subroute"
	"github.com/mholt/caddy-l4/modules/l4tee"
	"github.com/mholt/caddy-l4/modules/l4throttle"
	"github.com/mholt/caddy-l4/modules/l4tls"

	"verif/sim/worlds"
)

// Verdict kinds of spec matchers.
const (
	VYes = iota
	VNo
	VContent
	VNever
	VFail
)

// MSpec describes one matcher of a generated configuration.
type MSpec struct {
	ID   string `json:"id"`
	Need int    `json:"need"`
	Mode int    `json:"mode"`
	Kind int    `json:"kind"`
	Thr  int    `json:"thr,omitempty"` // content: yes iff last needed byte < Thr
	Not  bool   `json:"not,omitempty"`
	// And: with Not, a second matcher inside the negated set: not{ this AND And }
	And  *MSpec `json:"and,omitempty"`
	// Or: with Not, a second matcher set inside the not: not{ {this [AND And]} OR {Or} } (JSON
	// configurations can express it, the Caddyfile cannot)
	Or *MSpec `json:"or,omitempty"`
	Real string `json:"real,omitempty"` // "tls", "proxy_protocol": a shipped matcher instead

	m *worlds.SpecMatcher
}

type HSpec struct {
	Kind string  `json:"kind"` // consume recorder echo throttle tee subroute pp tls mark
	Name string  `json:"name"`
	K    int     `json:"k,omitempty"`
	Sub  *RLSpec `json:"sub,omitempty"`
	// throttle
	Rate  float64       `json:"rate,omitempty"`
	Burst int           `json:"burst,omitempty"`
	Lat   time.Duration `json:"lat,omitempty"`
	// pp
	Allow []string `json:"allow,omitempty"`
	// pp: the handler's timeout option (wait for the header)
	PPTimeout time.Duration `json:"pp_timeout,omitempty"`
	// recorder
	Late   time.Duration `json:"late,omitempty"`
	MaxBuf int           `json:"maxbuf,omitempty"`
	// tee branch
	Branch    []HSpec `json:"branch,omitempty"`
	StartMark string  `json:"start_mark,omitempty"`
	// PrefixOnly: a clean EOF before the end of the stream is legitimate (a tee branch whose
	// main connection may be closed before it was read to the end)
	PrefixOnly bool `json:"prefix_only,omitempty"`
}

type RSpec struct {
	Sets     [][]MSpec `json:"sets"`
	Handlers []HSpec   `json:"handlers"`
}

type RLSpec struct {
	Routes  []RSpec       `json:"routes"`
	Timeout time.Duration `json:"timeout,omitempty"`
}

// Builder turns specs into real route lists.
type Builder struct {
	E    *worlds.Env
	Tag  string // property tag prefix, e.g. "C01"
	Hist *[]worlds.MatchEval
	// Recorders created (for census)
	Recs    []*worlds.Recorder
	nextID  int
	OnDone  func(m *worlds.ConnModel, st *worlds.RecState)
	Throttles []*l4throttle.Handler
}

func (b *Builder) id(prefix string) string {
	b.nextID++
	return fmt.Sprintf("%s%d", prefix, b.nextID)
}

func contentYes(thr int) func([]byte) bool {
	return func(p []byte) bool {
		if len(p) == 0 {
			return thr > 0
		}
		return int(p[len(p)-1]) < thr
	}
}

func (b *Builder) Matcher(ms *MSpec) layer4.ConnMatcher {
	var m layer4.ConnMatcher
	switch ms.Real {
	case "tls":
		tm := &l4tls.MatchTLS{}
		tm.VerifSetLogger(b.E.Log)
		m = tm
	case "proxy_protocol":
		m = &l4proxyprotocol.MatchProxyProtocol{}
	default:
		sm := &worlds.SpecMatcher{E: b.E, ID: ms.ID, Need: ms.Need, Mode: ms.Mode, Hist: b.Hist}
		switch ms.Kind {
		case VYes:
			sm.Yes = func([]byte) bool { return true }
		case VNo:
			sm.Yes = func([]byte) bool { return false }
		case VContent:
			sm.Yes = contentYes(ms.Thr)
		case VNever:
			sm.Never = true
		case VFail:
			sm.Fail = true
			sm.Yes = func([]byte) bool { return false }
		}
		ms.m = sm
		m = sm
	}
	if ms.Not {
		inner := layer4.MatcherSet{m}
		if ms.And != nil {
			inner = append(inner, b.Matcher(ms.And))
		}
		sets := []layer4.MatcherSet{inner}
		if ms.Or != nil {
			sets = append(sets, layer4.MatcherSet{b.Matcher(ms.Or)})
		}
		m = &layer4.MatchNot{MatcherSets: sets}
	}
	return m
}

func (b *Builder) Handler(hs *HSpec, sig string) layer4.NextHandler {
	switch hs.Kind {
	case "consume", "mark":
		return &worlds.Consume{E: b.E, Name: hs.Name, K: hs.K, Tag: b.Tag, Sig: sig}
	case "vmark":
		return &worlds.Consume{E: b.E, Name: hs.Name, K: 0, Tag: b.Tag, Sig: sig, Visible: true, Hist: b.Hist}
	case "ppmark":
		return &worlds.Consume{E: b.E, Name: hs.Name, K: 0, Tag: b.Tag, Sig: sig, StripPre: true}
	case "recorder":
		r := &worlds.Recorder{E: b.E, Name: hs.Name, Tag: b.Tag, Sig: sig, Late: hs.Late, MaxBuf: hs.MaxBuf, OnDone: b.OnDone, Branch: hs.StartMark != "", StartMark: hs.StartMark, PrefixOnly: hs.PrefixOnly}
		b.Recs = append(b.Recs, r)
		return r
	case "echo":
		return &l4echo.Handler{}
	case "throttle":
		h := &l4throttle.Handler{ReadBytesPerSecond: hs.Rate, ReadBurstSize: hs.Burst, Latency: caddy.Duration(hs.Lat)}
		if err := h.Provision(b.E.Ctx); err != nil {
			panic(err)
		}
		h.VerifSetLogger(b.E.Log)
		b.Throttles = append(b.Throttles, h)
		return h
	case "tee":
		var br []layer4.NextHandler
		for i := range hs.Branch {
			br = append(br, b.Handler(&hs.Branch[i], sig))
		}
		return l4tee.VerifNew(br, b.E.Log)
	case "subroute":
		// the real Provision runs on an empty route list (defaults such as the matching timeout
		// are the shipped code's business); the harness routes are set afterwards
		h := &l4subroute.Handler{MatchingTimeout: caddy.Duration(hs.Sub.Timeout)}
		if err := h.Provision(b.E.Ctx); err != nil {
			panic(err)
		}
		h.Routes = b.RouteList(hs.Sub, sig)
		h.VerifSetLogger(b.E.Log)
		return h
	case "pp":
		h := &l4proxyprotocol.Handler{Allow: hs.Allow, Timeout: caddy.Duration(hs.PPTimeout)}
		if err := h.Provision(b.E.Ctx); err != nil {
			panic(err)
		}
		h.VerifSetLogger(b.E.Log)
		return h
	case "tls":
		cert := worlds.ServerCert()
		cfg := &tls.Config{Certificates: []tls.Certificate{cert}, NextProtos: []string{"h2", "http/1.1"}}
		h := &l4tls.Handler{ConnectionPolicies: caddytls.ConnectionPolicies{&caddytls.ConnectionPolicy{TLSConfig: cfg}}}
		h.VerifSet(b.E.Ctx, b.E.Log)
		return h
	}
	panic("unknown handler kind " + hs.Kind)
}

func (b *Builder) RouteList(rl *RLSpec, sig string) layer4.RouteList {
	var out layer4.RouteList
	for i := range rl.Routes {
		r := &rl.Routes[i]
		var sets []layer4.MatcherSet
		for si := range r.Sets {
			var set layer4.MatcherSet
			for mi := range r.Sets[si] {
				set = append(set, b.Matcher(&r.Sets[si][mi]))
			}
			sets = append(sets, set)
		}
		var hs []layer4.NextHandler
		for hi := range r.Handlers {
			hs = append(hs, b.Handler(&r.Handlers[hi], sig))
		}
		out = append(out, layer4.VerifNewRoute(sets, hs))
	}
	return out
}

// Kinds lists the handler kinds used anywhere in the spec (for signatures).
func (rl *RLSpec) Kinds() string {
	set := map[string]bool{}
	var walk func(rl *RLSpec)
	var walkH func(hs []HSpec)
	walkH = func(hs []HSpec) {
		for i := range hs {
			h := &hs[i]
			if h.Kind != "consume" && h.Kind != "mark" && h.Kind != "recorder" && h.Kind != "ppmark" && h.Kind != "vmark" {
				set[h.Kind] = true
			}
			if h.Sub != nil {
				walk(h.Sub)
			}
			walkH(h.Branch)
		}
	}
	walk = func(rl *RLSpec) {
		for i := range rl.Routes {
			walkH(rl.Routes[i].Handlers)
		}
	}
	walk(rl)
	var ks []string
	for _, k := range []string{"pp", "tls", "throttle", "tee", "subroute", "echo"} {
		if set[k] {
			ks = append(ks, k)
		}
	}
	if len(ks) == 0 {
		return "plain"
	}
	return strings.Join(ks, "+")
}

// ---- PROXY protocol header encoder (independent of the library under test) --------

// PPHeader describes a PROXY protocol header.
type PPHeader struct {
	Version int // 1 or 2
	Local   bool
	Unknown bool // v1 UNKNOWN / v2 UNSPEC
	UDP     bool // v2 only: the addresses are a datagram pair (protocol nibble 2)
	Src     *net.TCPAddr
	Dst     *net.TCPAddr
	TLVs    []byte
}

var ppV2Sig = []byte{0x0D, 0x0A, 0x0D, 0x0A, 0x00, 0x0D, 0x0A, 0x51, 0x55, 0x49, 0x54, 0x0A}

func (h *PPHeader) Encode() []byte {
	if h.Version == 1 {
		if h.Unknown {
			return []byte("PROXY UNKNOWN\r\n")
		}
		fam := "TCP4"
		if h.Src.IP.To4() == nil {
			fam = "TCP6"
		}
		return []byte(fmt.Sprintf("PROXY %s %s %s %d %d\r\n", fam, h.Src.IP.String(), h.Dst.IP.String(), h.Src.Port, h.Dst.Port))
	}
	out := append([]byte(nil), ppV2Sig...)
	cmd := byte(0x21)
	if h.Local {
		cmd = 0x20
	}
	out = append(out, cmd)
	var body []byte
	fam := byte(0x00)
	if !h.Unknown && !h.Local {
		if ip4 := h.Src.IP.To4(); ip4 != nil {
			fam = 0x11
			if h.UDP {
				fam = 0x12
			}
			body = append(body, ip4...)
			body = append(body, h.Dst.IP.To4()...)
		} else {
			fam = 0x21
			if h.UDP {
				fam = 0x22
			}
			body = append(body, h.Src.IP.To16()...)
			body = append(body, h.Dst.IP.To16()...)
		}
		body = append(body, byte(h.Src.Port>>8), byte(h.Src.Port), byte(h.Dst.Port>>8), byte(h.Dst.Port))
	}
	body = append(body, h.TLVs...)
	out = append(out, fam, byte(len(body)>>8), byte(len(body)))
	out = append(out, body...)
	return out
}
