package props

import (
	"fmt"
	"testing"
	"time"


	"verif/sim/worlds"
)

// The datagram variant of the match-and-rewind world: a UDP client's datagrams are
// prefetched for matching (a matcher that needs n bytes, possibly spanning datagrams)
// and then read by consume-k / recorder handlers with arbitrary buffer sizes (partial
// datagram reads). The client's stream is the concatenation of its datagrams; nothing
// is dropped or duplicated by the network in this variant, so the stream is exact.
type c01uSample struct {
	Mode      string `json:"mode"`
	Datagrams []int  `json:"datagram_sizes"`
	Need      int    `json:"matcher_need"`
	Consume   int    `json:"consume_k"`
	RecBuf    int    `json:"recorder_max_buffer"`
	Nested    bool   `json:"recorder_in_subroute"`
	Read      int    `json:"bytes_read_by_recorder"`
	SimTime   string `json:"simulated_time"`
}

func runC01UDP(t *testing.T, e *worlds.Env, tier string) (bool, any) {
	sample := &c01uSample{Mode: "udp"}
	var uw *worlds.UDPWorld
	var model *worlds.ConnModel
	e.Run(t, func() func() bool {
		tp := e.T
		yieldKnob(e)
		b := &Builder{E: e, Tag: "C01"}
		addr := worlds.UDPClientAddr(1)
		model = &worlds.ConnModel{ID: 1, Key: e.S.Seed*7 + 1, Addr: addr.String()}
		plan := &worlds.UDPClientPlan{ID: 1, Addr: addr}
		nd := 1 + tp.LogRange(0, 10, "ndgrams")
		total := 0
		for j := 0; j < nd; j++ {
			var sz int
			switch tp.Weighted("dsize", 5, 3, 1) {
			case 0:
				sz = 1 + tp.Choose(80, "dsz")
			case 1:
				sz = 100 + tp.Choose(2400, "dsz") // around the 2048-byte prefetch chunk
			default:
				sz = 2049 + tp.Choose(5000, "dsz")
			}
			sample.Datagrams = append(sample.Datagrams, sz)
			total += sz
		}
		// (only the first bytes are matched on: the matcher needs at most 3000; large datagrams one
		// after the other are what makes the socket reader's pooled buffers travel)
		for total > 40000 {
			total -= sample.Datagrams[len(sample.Datagrams)-1]
			sample.Datagrams = sample.Datagrams[:len(sample.Datagrams)-1]
		}
		model.App = worlds.Stream(model.Key, total)
		off := 0
		for j, sz := range sample.Datagrams {
			var delay time.Duration
			if j > 0 && tp.Prob(1, 3, "gap") {
				delay = time.Duration(1+tp.Choose(300, "gap-ms")) * time.Millisecond
			}
			plan.Sends = append(plan.Sends, worlds.UDPSend{Data: append([]byte(nil), model.App[off:off+sz]...), Delay: delay})
			off += sz
		}
		need := 0
		if tp.Prob(3, 4, "matcher") {
			need = tp.Pick("need", 1, 5, 81, 2049, 3000)
			if need > total {
				need = total
			}
		}
		sample.Need = need
		var sets [][]MSpec
		if need > 0 {
			sets = [][]MSpec{{{ID: b.id("m"), Need: need, Mode: tp.Choose(4, "m-mode"), Kind: VYes}}}
		}
		var hs []HSpec
		if tp.Prob(1, 3, "consume") {
			k := tp.LogRange(0, 3000, "consume-k")
			if k > total {
				k = total
			}
			sample.Consume = k
			hs = append(hs, HSpec{Kind: "consume", Name: b.id("con"), K: k})
		}
		sample.RecBuf = tp.Pick("rec-maxbuf", 4096, 1, 64, 9216)
		rec := HSpec{Kind: "recorder", Name: b.id("rec"), MaxBuf: sample.RecBuf}
		if tp.Prob(1, 4, "nested") {
			sample.Nested = true
			sub := &RLSpec{Routes: []RSpec{{Handlers: []HSpec{rec}}}}
			hs = append(hs, HSpec{Kind: "subroute", Name: b.id("sub"), Sub: sub})
		} else {
			hs = append(hs, rec)
		}
		spec := &RLSpec{Routes: []RSpec{{Sets: sets, Handlers: hs}}}
		routes := b.RouteList(spec, "udp")
		e.Reg.Add(model)
		uw = e.NewUDPWorld(routes, 3*time.Second)
		uw.StartClient(plan)
		return uw.Done
	}, func() {
		sample.SimTime = e.S.SimElapsed.String()
		if e.S.Capped {
			return
		}
		for _, st := range model.Recorders {
			sample.Read += st.Got
		}
		// the recorder ends at the idle expiry of the association (EOF): by then it must have read
		// everything from the first byte no earlier handler consumed (the recorder itself checks
		// content at every read and completeness at EOF); here: it ran at all
		if len(model.Recorders) == 0 && len(model.App) > 0 {
			e.S.Fail("C01/early-eof", "udp", "the client sent %d bytes in %d datagrams (matcher needs %d) but the recording handler never ran", len(model.App), len(sample.Datagrams), sample.Need)
		}
	})
	_ = fmt.Sprint
	return len(sample.Datagrams) >= 2 || sample.Need > 0, sample
}
