package props

import (
	"crypto/tls"
	"fmt"
	"net"
	"runtime"
	"strings"
	"testing"
	"time"

	"github.com/mholt/caddy-l4/layer4"
	"github.com/mholt/caddy-l4/modules/l4tee"

	"verif/sim/simnet"
	"verif/sim/worlds"
)

// connection classes of the listener-wrapper world, decided by the first byte
const (
	clTerminal = 'E' // matched by a terminal route
	clFall     = 'F' // falls through all routes -> handed to the wrapped listener
	clNever    = 'N' // a matcher never decides -> matching timeout
	clError    = 'X' // a matcher fails with an error
	clFull     = 'B' // a matcher keeps asking for more -> matching buffer full
	clTLS      = 'T' // TLS-terminated by a non-terminal route, then falls through
	clTwoStep  = 'P' // matched by a non-terminal route (consumes one byte), then by a terminal route
	clSub      = 'S' // matched by a route whose subroute falls through, then falls through the rest
	clTee      = 'W' // matched by a non-terminal route whose handler wraps the connection (tee), then falls through
	clPart     = 'Q' // matched by a non-terminal route whose handler reads part of the prefetched bytes itself, then falls through
	clTeeTerm  = 'Z' // matched by a terminal route: tee, then a handler that returns without reading to EOF
)

type c13Conn struct {
	Class    string `json:"class"`
	Len      int    `json:"stream_len"`
	Accepted int    `json:"accept_count"`
	ReadLate string `json:"consumer_read_delay"`
	Closed   bool   `json:"server_side_closed"`
}

type c13Sample struct {
	Conns      []c13Conn `json:"connections"`
	ChanCap    int       `json:"conn_chan_capacity"`
	CloseAt    string    `json:"listener_close_at"`
	AcceptGap  string    `json:"consumer_accept_gap"`
	Timeout    string    `json:"matching_timeout"`
	AfterClose string    `json:"accept_after_close"`
	Leftover   []string  `json:"goroutines_left"`
	Listeners  int       `json:"listeners_wrapped_by_the_wrapper"`
	DoubleClose bool     `json:"consumer_closes_twice"`
	Wrapper    string    `json:"wrapping_handler_before_handover,omitempty"`
}

func init() {
	register(&Prop{
		ID:   "C13",
		Rule: "each run wraps one or two simulated listeners with one real ListenerWrapper and draws 1..7 client connections of classes {terminal route, fall-through, never-deciding (timeout), matcher error, buffer full, TLS-terminated then fall-through}, stream sizes and segmentations, a consumer per listener that Accepts with tape-chosen gaps, reads each accepted connection late and closes it once or twice, the connChan capacity (GOMAXPROCS 1/2/4/16), temporary accept errors and a Close instant (after the workload, or in the middle of it). Oracle: exactly-once census, byte-exact replay of prefetched bytes (poisoning pool on), TLS state, closure of consumed/rejected connections, delivery by the listener the connection arrived on, Accept reporting closure promptly (not after the handlers still running), no goroutine left. Non-trivial: >=1 connection handed off with prefetched bytes or Close while connections were in flight; distinct: event-log hashes.",
		Run:  runC13,
	})
}

func runC13(t *testing.T, e *worlds.Env, tier string) (bool, any) {
	sample := &c13Sample{}
	type cstate struct {
		class  byte
		model  *worlds.ConnModel
		client *worlds.Client
		accepts int
		tlsOK  bool
		sni    string
		late   time.Duration
		ln     int // index of the listener it connected to
		readErr      error // the consumer's read of the accepted connection failed (not EOF)
		readErrAfter int
	}
	var conns []*cstate
	byAddr := map[string]*cstate{}
	// one wrapper, one or two wrapped listeners (Caddy wraps one per listen address)
	var lns []*simnet.Listener
	var wrappeds []net.Listener
	closedMid := false
	var closeAt time.Duration
	closeCalled := false
	var closeCalledAt time.Duration
	acceptErrSeen := false
	var acceptErrAt time.Duration
	consumersDone := 0
	acceptErrs := 0
	var inAcceptSince []time.Duration // per listener: when its consumer entered the Accept it is blocked in (-1: not in Accept)
	var closureLag time.Duration      // worst delay between Close (or entering Accept, if later) and Accept's error
	readersLeft := 0
	oldProcs := runtime.GOMAXPROCS(0)
	defer runtime.GOMAXPROCS(oldProcs)
	handedWithPrefetch := 0
	partK := 0
	teeTermBranches := map[string]bool{}
	// goroutines of the listener wrapper still alive, without the tee branches judged separately
	lwLeft := func() []string {
		var out []string
		live := liveWith(e, "lw")
		lk()
		defer ulk()
		for _, g := range live {
			if !teeTermBranches[g] {
				out = append(out, g)
			}
		}
		return out
	}
	var matchTimeout time.Duration
	e.Run(t, func() func() bool {
		e.N.Cfg = netKnobs(e)
		if e.N.Cfg.Window > 0 && e.N.Cfg.Window < 1500 {
			e.N.Cfg.Window = 1500
		}
		yieldKnob(e)
		tp := e.T
		procs := tp.Pick("chan-cap", 4, 1, 2, 16)
		runtime.GOMAXPROCS(procs)
		sample.ChanCap = procs
		timeout := time.Duration(tp.Pick("timeout-ms", 500, 200, 1000, 3000)) * time.Millisecond
		matchTimeout = timeout
		sample.Timeout = timeout.String()
		b := &Builder{E: e, Tag: "C13"}
		first := func(c byte, need int, verdict int) *worlds.SpecMatcher {
			return &worlds.SpecMatcher{E: e, ID: b.id("m"), Fn: func(v []byte) int {
				if len(v) < 1 {
					return 2
				}
				if v[0] != c {
					return 0
				}
				if len(v) < need {
					return 2
				}
				return verdict
			}}
		}
		sig := "lw"
		term := HSpec{Kind: "recorder", Name: "term", MaxBuf: tp.Pick("rec-maxbuf", 4096, 1, 300)}
		needFall := tp.Pick("fall-need", 1, 5, 700, 2049, 5000)
		tlsm := MSpec{ID: "mtls", Real: "tls"}
		tlsh := HSpec{Kind: "tls", Name: "tls"}
		pcon := HSpec{Kind: "consume", Name: "pcon", K: 1}
		// the two-step pair (non-terminal route, then the terminal route) sits either at the head
		// or at the tail of the list: at the tail nothing is left to decide after the terminal
		// handler, so only its being terminal keeps the connection away from Accept
		twoStep := []*layer4.Route{
			layer4.VerifNewRoute([]layer4.MatcherSet{{first(clTwoStep, 1, 1)}}, []layer4.NextHandler{b.Handler(&pcon, sig)}),
			layer4.VerifNewRoute([]layer4.MatcherSet{{first(clTerminal, tp.Pick("term-need", 1, 3, 2500), 1)}}, []layer4.NextHandler{b.Handler(&term, sig)}),
		}
		// TLS termination, optionally followed by another wrapping handler (the consumer must still
		// get the TLS connection state)
		tlsChain := []layer4.NextHandler{b.Handler(&tlsh, sig)}
		if tp.Prob(1, 3, "tls-then-throttle") {
			thr2 := HSpec{Kind: "throttle", Name: "thrT", Rate: 5000000, Burst: 8192}
			tlsChain = append(tlsChain, b.Handler(&thr2, sig))
			sample.Wrapper += " tls+throttle"
		}
		pairLast := tp.Prob(1, 2, "pair-last")
		// (with a large need the connection being teed still holds prefetched bytes that the
		// routes after it do not pull: the consumer reads them through the wrapper)
		teeNeed := tp.Pick("tee-need", 1, 6, 700, 5000)
		teeSpec := HSpec{Kind: "tee", Name: "teeW", Branch: []HSpec{{Kind: "recorder", Name: "branchW", StartMark: "teemarkW", MaxBuf: 2048, PrefixOnly: true}}}
		teeMark := HSpec{Kind: "mark", Name: "teemarkW"}
		// a wrapping handler in front of the hand-over: the consumer reads through the wrapper.
		// As the first route, the routes after it pull the prefetched bytes into the wrapper; as the
		// last one, the connection being teed still holds them (in its pooled buffer) at the hand-over
		wrapHandlers := []layer4.NextHandler{b.Handler(&teeMark, sig), b.Handler(&teeSpec, sig)}
		if tp.Prob(1, 3, "wrap-throttle") {
			// a rate limiter instead: the consumer's reads go through its wrapper (and wait on the
			// connection's context) long after layer4 has handed the connection over
			thr := HSpec{Kind: "throttle", Name: "thrW", Rate: 5000000, Burst: 4096}
			wrapHandlers = []layer4.NextHandler{b.Handler(&thr, sig)}
			sample.Wrapper = "throttle"
		}
		teeRoute := layer4.VerifNewRoute([]layer4.MatcherSet{{first(clTee, teeNeed, 1)}}, wrapHandlers)
		// a subroute whose inner route is not terminal: the connection falls through it, and on
		// through the rest of the list, to the wrapped listener
		subS := HSpec{Kind: "subroute", Name: "subS", Sub: &RLSpec{Routes: []RSpec{{Handlers: []HSpec{{Kind: "mark", Name: "inS"}}}}}}
		subRoute := layer4.VerifNewRoute([]layer4.MatcherSet{{first(clSub, 1, 1)}}, []layer4.NextHandler{b.Handler(&subS, sig)})
		// a handler that strips a preamble: it reads k of the bytes prefetched for matching straight
		// from the connection and passes the same connection on; the rest falls through to Accept
		partNeed := tp.Pick("part-need", 6, 40, 700, 3000)
		partK = 1 + tp.Choose(partNeed-1, "part-k")
		pconQ := HSpec{Kind: "consume", Name: "pconQ", K: partK}
		partRoute := layer4.VerifNewRoute([]layer4.MatcherSet{{first(clPart, partNeed, 1)}}, []layer4.NextHandler{b.Handler(&pconQ, sig)})
		// tee in front of a terminal handler that ends without reading its connection to EOF (as echo
		// does after a failed write, or proxy when no upstream can be dialled)
		branchZ := layer4.NextHandlerFunc(func(cx *layer4.Connection, _ layer4.Handler) error {
			me := e.S.Name()
			lk()
			teeTermBranches[me] = true
			ulk()
			buf := make([]byte, 512)
			for {
				e.S.Park("branchZ")
				if _, err := cx.Read(buf); err != nil {
					e.S.Park("branchZ.end")
					return nil
				}
			}
		})
		earlyZ := layer4.NextHandlerFunc(func(cx *layer4.Connection, _ layer4.Handler) error {
			_, _ = cx.Read(make([]byte, 1))
			return nil
		})
		teeTermRoute := layer4.VerifNewRoute([]layer4.MatcherSet{{first(clTeeTerm, 1, 1)}}, []layer4.NextHandler{l4tee.VerifNew([]layer4.NextHandler{branchZ}, e.Log), earlyZ})
		teeLast := tp.Prob(1, 2, "tee-last")
		routes := layer4.RouteList{
			layer4.VerifNewRoute([]layer4.MatcherSet{{first(clNever, 1<<30, 2)}}, []layer4.NextHandler{b.Handler(&term, sig)}),
			layer4.VerifNewRoute([]layer4.MatcherSet{{first(clError, tp.Pick("err-need", 1, 40), 3)}}, []layer4.NextHandler{b.Handler(&term, sig)}),
			layer4.VerifNewRoute([]layer4.MatcherSet{{first(clFull, 1<<30, 2)}}, []layer4.NextHandler{b.Handler(&term, sig)}),
			layer4.VerifNewRoute([]layer4.MatcherSet{{b.Matcher(&tlsm)}}, tlsChain),
			// asks for needFall bytes of a fall-through connection, then says no
			layer4.VerifNewRoute([]layer4.MatcherSet{{first(clFall, needFall, 0)}}, []layer4.NextHandler{b.Handler(&term, sig)}),
		}
		if !teeLast {
			routes = append(layer4.RouteList{teeRoute}, routes...)
		}
		if pairLast {
			routes = append(routes, twoStep...)
		} else {
			routes = append(layer4.RouteList(twoStep), routes...)
		}
		if teeLast {
			routes = append(routes, teeRoute)
		}
		routes = append(layer4.RouteList{subRoute, partRoute, teeTermRoute}, routes...)
		nln := 1
		if tp.Prob(1, 4, "two-listeners") {
			nln = 2
		}
		for i := 0; i < nln; i++ {
			lns = append(lns, e.N.Listen(fmt.Sprintf("ln%d", i+1), simnet.TCPAddr("10.0.0.1", 443+i)))
			inAcceptSince = append(inAcceptSince, -1)
		}
		sample.Listeners = nln
		lw := layer4.VerifNewListenerWrapper(e.Ctx, routes, timeout, e.Log)
		ready := make(chan struct{})
		e.S.Go("lw", func() {
			for _, ln := range lns {
				wrappeds = append(wrappeds, lw.WrapListener(ln))
			}
			close(ready)
		})
		<-ready
		// clients
		n := 1 + tp.Choose(7, "nconn")
		classes := []byte{clFall, clFall, clTerminal, clNever, clError, clFull, clTLS, clTwoStep, clTee, clSub, clPart, clTeeTerm}
		for i := 1; i <= n; i++ {
			cls := classes[tp.Choose(len(classes), "class")]
			plan := &worlds.ClientPlan{ID: i, Addr: worlds.ClientAddr(i), End: worlds.EndHalfClose}
			plan.StartAt = time.Duration(tp.Choose(400, "start-ms")) * time.Millisecond
			m := &worlds.ConnModel{ID: i, Key: e.S.Seed*131 + uint64(i), Addr: plan.Addr.String()}
			ln2 := 1 + tp.LogRange(0, 12000, "len")
			if minLen := max(needFall, teeNeed+10); cls == clTee && ln2 < minLen {
				ln2 = minLen + tp.Choose(50, "len-extra")
			}
			if minLen := max(needFall, 5); (cls == clFall || cls == clTLS || cls == clSub) && ln2 < minLen {
				// enough bytes for every route to decide (the tls matcher needs a 5-byte record header)
				ln2 = minLen + tp.Choose(50, "len-extra")
			}
			if minLen := partNeed + max(needFall, 5); cls == clPart && ln2 < minLen {
				ln2 = minLen + tp.Choose(50, "len-extra")
			}
			switch cls {
			case clFull:
				ln2 = layer4.MaxMatchingBytes + 3000
			case clNever:
				plan.End = worlds.EndLinger
				plan.Linger = 10 * time.Second
			}
			m.App = worlds.Stream(m.Key, ln2)
			if cls == clTLS {
				plan.TLS = &tls.Config{InsecureSkipVerify: true, ServerName: "b.sim.test"}
				m.App[0] = clFall // plaintext falls through
			} else {
				m.App[0] = cls
			}
			if cls == clPart {
				m.App[partK] = clFall // what is left after the preamble falls through
			}
			if cls == clTwoStep {
				if len(m.App) < 8 {
					m.App = worlds.Stream(m.Key, 8+tp.Choose(40, "len-p"))
					m.App[0] = cls
				}
				m.App[1] = clTerminal // after the first route consumed one byte, the terminal route matches
				ln2 = len(m.App)
			}
			plan.App = m.App
			plan.Chunks = e.MakeChunks(ln2, 15*time.Millisecond)
			if cls == clTerminal && len(plan.Chunks) >= 2 && tp.Prob(1, 3, "long-session") {
				// a conversation with the terminal handler that outlasts the matching timeout (judged
				// under C05: once a route has matched, the timeout no longer limits its handlers)
				plan.Chunks[len(plan.Chunks)-1].Delay = timeout + time.Duration(100+tp.Choose(500, "long-extra-ms"))*time.Millisecond
			}
			e.Reg.Add(m)
			cs := &cstate{class: cls, model: m, ln: tp.Choose(nln, "via-listener")}
			cs.client = e.StartClient(lns[cs.ln], plan, m)
			conns = append(conns, cs)
			byAddr[plan.Addr.String()] = cs
		}
		// listener faults
		if tp.Prob(1, 4, "temp-err") {
			lns[0].InjectTempError(1 + tp.Choose(3, "temp-n"))
		}
		// consumer
		gap := time.Duration(tp.Pick("accept-gap-ms", 0, 0, 50, 700)) * time.Millisecond
		sample.AcceptGap = gap.String()
		doubleClose := tp.Prob(1, 4, "double-close")
		sample.DoubleClose = doubleClose
		for li := range wrappeds {
			li := li
			e.S.Go(fmt.Sprintf("cons%d", li+1), func() {
				k := 0
				for {
					if gap > 0 {
						time.Sleep(gap)
					}
					lk()
					inAcceptSince[li] = e.S.Elapsed()
					ulk()
					c, err := wrappeds[li].Accept()
					if err != nil {
						lk()
						spurious := !closeCalled
						ulk()
						if spurious {
							e.S.Fail("C13/closure-without-close", sig, "Accept of listener %d failed with %q at %v although Close was never called (a temporary accept error of the wrapped listener must not end the wrapper)", li+1, err, e.S.Elapsed())
						}
						lk()
						now := e.S.Elapsed()
						acceptErrs++
						acceptErrSeen, acceptErrAt = acceptErrs == len(wrappeds), now
						consumersDone++
						from := inAcceptSince[li]
						if closeCalled && closeCalledAt > from {
							from = closeCalledAt
						}
						if closeCalled && now-from > closureLag {
							closureLag = now - from
						}
						ulk()
						return
					}
					lk()
					inAcceptSince[li] = -1
					ulk()
					k++
					cs := byAddr[c.RemoteAddr().String()]
					if cs == nil {
						e.S.Fail("C13/unknown-conn", sig, "Accept returned a connection from %v that no client opened", c.RemoteAddr())
						_ = c.Close()
						continue
					}
					if cs.ln != li {
						e.S.Fail("C13/wrong-listener", sig, "conn %d arrived on listener %d but was returned by Accept of listener %d (both wrapped by the same wrapper)", cs.model.ID, cs.ln+1, li+1)
					}
					lk()
					cs.accepts++
					readersLeft++
					ulk()
					late := time.Duration(e.S.Choose(4, "read-late")) * 150 * time.Millisecond
					cs.late = late
					if st, ok := c.(interface{ ConnectionState() tls.ConnectionState }); ok {
						cs.tlsOK = true
						cs.sni = st.ConnectionState().ServerName
					}
					e.S.Go(fmt.Sprintf("cons%d.r%d", li+1, k), func() {
						rec := &worlds.Recorder{E: e, Name: "accepted", Tag: "C13", Sig: sig, Late: late, MaxBuf: 2048}
						st := rec.Record(c, cs.model, true)
						if st.Err != nil && !st.EOF && !st.Bad {
							lk()
							cs.readErr, cs.readErrAfter = st.Err, st.Got
							ulk()
						}
						_ = c.Close()
						if doubleClose {
							_ = c.Close() // net.Conn allows it; servers routinely do
						}
						lk()
						readersLeft--
						ulk()
					})
				}
			})
		}
		// Close instant
		closedMid = tp.Prob(1, 3, "close-mid")
		if closedMid {
			closeAt = time.Duration(tp.Choose(1500, "close-at-ms")) * time.Millisecond
			if len(conns) > 0 && tp.Prob(1, 3, "close-at-arrival") {
				// Close at the very instant a connection arrives: whether the connection's handler or the
				// shutdown runs first is the scheduler's choice
				closeAt = conns[tp.Choose(len(conns), "close-with")].client.Plan.StartAt
			}
			sample.CloseAt = closeAt.String()
			e.S.Go("closer", func() {
				time.Sleep(closeAt)
				lk()
				closeCalled, closeCalledAt = true, e.S.Elapsed()
				ulk()
				for _, w := range wrappeds {
					_ = w.Close()
				}
			})
		} else {
			sample.CloseAt = "after workload"
		}
		workloadDone := func() bool {
			for _, cs := range conns {
				if !cs.client.Finished() {
					return false
				}
			}
			lk()
			r := readersLeft
			ulk()
			if r != 0 {
				return false
			}
			for i := range wrappeds {
				if !e.ChildrenIdle(fmt.Sprintf("lw.%d", i+1)) {
					return false
				}
			}
			return true
		}
		closing := false
		return func() bool {
			if !closedMid && !closing {
				if !workloadDone() {
					return false
				}
				closing = true
				lk()
				closeCalled, closeCalledAt = true, e.S.Elapsed()
				ulk()
				e.S.Go("closer", func() {
					for _, w := range wrappeds {
						_ = w.Close()
					}
				})
				return false
			}
			lk()
			cd := consumersDone == len(wrappeds)
			ulk()
			return cd && workloadDone() && len(lwLeft()) == 0
		}
	}, func() {
		left := lwLeft()
		sample.Leftover = left
		// the branch goroutine of a tee whose main chain ended without reading to EOF or closing its
		// wrapper: nothing closes the pipe it reads from (known finding K02)
		if !e.S.Capped || e.S.CappedBy == "time" {
			var stuckBranches []string
			for _, g := range liveWith(e, "lw") {
				if teeTermBranches[g] {
					stuckBranches = append(stuckBranches, g)
				}
			}
			if len(stuckBranches) > 0 {
				e.S.Fail("C13/tee-branch-left", "tee+early-return", "the listener is closed and every connection has ended, but the branch handlers of %d connections that went through tee in front of a handler returning before EOF are still blocked reading their pipe: %v", len(stuckBranches), stuckBranches)
			}
		}
		for _, cs := range conns {
			cc := c13Conn{Class: string(cs.class), Len: len(cs.model.App), Accepted: cs.accepts, ReadLate: cs.late.String()}
			if cs.client.End != nil {
				cc.Closed = cs.client.End.Peer().IsClosed()
			}
			sample.Conns = append(sample.Conns, cc)
		}
		if e.S.Capped {
			// bounded liveness: everything must have wound down within the caps once Close was called
			if closeCalled && e.S.CappedBy == "time" {
				e.S.Fail("C13/stuck", "lw", "run hit the step/time cap: after Close() at %v Accept had reported closure=%v, goroutines left: %v", closeCalledAt, acceptErrSeen, left)
			}
			return
		}
		for _, cs := range conns {
			m := cs.model
			connected := cs.client.End != nil
			if !connected {
				continue
			}
			srvClosed := cs.client.End.Peer().IsClosed()
			switch cs.class {
			case clTerminal, clNever, clError, clFull, clTwoStep, clTeeTerm:
				if cs.class == clTerminal && !closedMid && cs.client.WriteErr == nil && m.WroteAll && !m.Aborted {
					for _, st := range m.Recorders {
						if st.Name == "term" && st.Done && st.Err != nil && !st.EOF && !st.Bad {
							e.S.Fail("C13/terminal-cut", "lw", "conn %d (class %c): the terminal handler's read failed after %d of %d bytes with %q although the client sent everything (last chunk %v after the previous one; matching timeout %v) and closed gracefully",
								m.ID, cs.class, st.Got, len(m.App)-st.Start, st.Err, cs.client.Plan.Chunks[len(cs.client.Plan.Chunks)-1].Delay, matchTimeout)
						}
					}
				}
				if cs.accepts > 0 {
					e.S.Fail("C13/delivered-consumed", "lw", "conn %d (class %c: consumed or rejected by layer4) was delivered to Accept %d times", m.ID, cs.class, cs.accepts)
				}
				if !srvClosed {
					e.S.Fail("C13/not-closed", "lw", "conn %d (class %c) was neither delivered nor closed", m.ID, cs.class)
				}
			case clFall, clTLS, clTee, clSub, clPart:
				if cs.accepts > 1 {
					e.S.Fail("C13/delivered-twice", "lw", "conn %d was delivered to Accept %d times", m.ID, cs.accepts)
				}
				if cs.accepts == 0 {
					// legitimate only if the listener was closed before the hand-off, the client
					// failed before matching finished, or the TLS handshake failed
					hsFailed := cs.class == clTLS && !cs.client.HSDone
					// a client that needed a large part of the matching timeout to deliver its
					// bytes may legitimately have been timed out (class c)
					slow := cs.client.WDoneAt-cs.client.Plan.StartAt > matchTimeout/2
					if !closedMid && !hsFailed && m.WroteAll && !slow {
						e.S.Fail("C13/lost-connection", "lw", "conn %d (class %c) fell through all routes but was never returned by Accept (listener open until the end)", m.ID, cs.class)
					}
					if !srvClosed {
						e.S.Fail("C13/not-closed", "lw", "conn %d (class %c) was neither delivered nor closed", m.ID, cs.class)
					}
				}
				if cs.accepts == 1 && cs.class == clTLS {
					if !cs.tlsOK {
						e.S.Fail("C13/tls-state", "lw", "conn %d: TLS-terminated connection delivered without ConnectionState()", m.ID)
					} else if cs.sni != "b.sim.test" {
						e.S.Fail("C13/tls-state", "lw", "conn %d: ConnectionState().ServerName = %q, client sent b.sim.test", m.ID, cs.sni)
					}
				}
				if cs.accepts == 1 && cs.class == clFall && cs.tlsOK {
					e.S.Fail("C13/tls-state", "lw", "conn %d: plain connection delivered with a TLS connection state", m.ID)
				}
				if cs.accepts == 1 {
					handedWithPrefetch++
				}
				if cs.readErr != nil && cs.client.WriteErr == nil && m.WroteAll && !m.Aborted {
					e.S.Fail("C13/read-error", "lw", "conn %d (class %c) was handed over, the client sent its whole stream and closed gracefully, but the consumer's read failed after %d bytes: %v", m.ID, cs.class, cs.readErrAfter, cs.readErr)
				}
			}
		}
		if closeCalled && closureLag > 20*time.Millisecond {
			e.S.Fail("C13/accept-after-close", "lw", "Close() was called at %v; an Accept that was blocked then (or entered later) reported closure only %v afterwards (it must not wait for connections still held by handlers)", closeCalledAt, closureLag)
		}
		if closeCalled && !acceptErrSeen {
			e.S.Fail("C13/accept-after-close", "lw", "Close() was called at %v but Accept never reported closure", closeCalledAt)
		}
		if len(left) > 0 {
			e.S.Fail("C13/goroutine-left", "lw", "after Close() and the end of all connections these listener goroutines are still alive: %v", left)
		}
		if acceptErrSeen {
			sample.AfterClose = (acceptErrAt - closeCalledAt).String()
		}
	})
	if handedWithPrefetch > 0 {
		e.S.Stats["probe_handoff_with_prefetched_bytes"]++
	}
	if closedMid {
		e.S.Stats["probe_close_mid_workload"]++
	}
	return handedWithPrefetch > 0 || closedMid, sample
}

func liveWith(e *worlds.Env, prefix string) []string {
	var out []string
	for _, n := range e.S.Live() {
		if n == prefix || strings.HasPrefix(n, prefix+".") {
			out = append(out, n)
		}
	}
	return out
}
