package props

import (
	"fmt"
	"strconv"

	"github.com/caddyserver/caddy/v2/caddyconfig/caddyfile"
	"testing"
	"time"

	"github.com/caddyserver/caddy/v2"
	"github.com/mholt/caddy-l4/layer4"
	"github.com/mholt/caddy-l4/modules/l4throttle"

	"verif/sim/worlds"
)

type c17Sample struct {
	Rate       float64 `json:"read_bytes_per_second"`
	Burst      int     `json:"read_burst_size"`
	TotalRate  float64 `json:"total_read_bytes_per_second"`
	TotalBurst int     `json:"total_read_burst_size"`
	Latency    string  `json:"latency"`
	Conns      int     `json:"connections"`
	StreamLen  []int   `json:"stream_lengths"`
	RecBuf     int     `json:"reader_max_buffer"`
	Nested     bool    `json:"matching_behind_throttle"`
	Reads      int     `json:"throttled_reads"`
	SimTime    string  `json:"simulated_time"`
	FirstReads []string `json:"first_read_attempts"`
	Caddyfile  string   `json:"configured_by_caddyfile,omitempty"`
}

func init() {
	register(&Prop{
		ID:      "C17",
		Rule:    "each run draws a throttle configuration (per-connection and/or total rate 1B/s..10MB/s, bursts 1..64KiB incl. the default rate+1, latency 0..2s), 1..16 concurrent connections with position-coded streams sized to a few hundred throttled reads, reader buffers 1B..64KiB, flooding or trickling clients, optionally a subroute whose matching prefetches through the throttle; every read that reaches a client socket is timestamped on the simulated clock and checked against bytes(T) <= burst + rate*T (per connection and summed for the total limiter), first read not before latency, stream intact. Non-trivial: some read had to wait for tokens (simulated time advanced between reads); distinct: event-log hashes.",
		Run:     runC17,
		MaxTime: 200 * time.Hour,
		MaxSteps: 60000,
	})
}

func runC17(t *testing.T, e *worlds.Env, tier string) (bool, any) {
	var w *worlds.TCPWorld
	sample := &c17Sample{}
	var models []*worlds.ConnModel
	var rate, trate float64
	var burst, tburst int
	var latency time.Duration
	burstOnly := false
	markAt := map[int]time.Duration{}
	e.Run(t, func() func() bool {
		e.N.Cfg = netKnobs(e)
		e.N.KeepReads = true
		// a transport that reports end-of-stream together with the last bytes (as TLS 1.2 does)
		e.N.Cfg.EOFWithData = e.T.Prob(1, 3, "k-eof-with-data")
		yieldKnob(e)
		tp := e.T
		rate = float64(tp.Pick("rate", 0, 1, 10, 1000, 100000, 10000000))
		trate = float64(tp.Pick("trate", 0, 0, 5, 1000, 100000, 10000000))
		latencyOnly := tp.Prob(1, 8, "latency-only")
		if latencyOnly {
			rate, trate = 0, 0 // no limit configured at all: only the initial latency applies
		} else if rate == 0 && trate == 0 {
			rate = 1000 // (an exhausted tape yields zeros: never loop on tape values)
		}
		if rate > 0 {
			burst = tp.Pick("burst", 0, 1, 7, 512, 4096, 65536)
		}
		if trate > 0 {
			tburst = tp.Pick("tburst", 0, 1, 7, 512, 4096, 65536)
		}
		// a burst without a rate is a byte budget: burst + 0 x T
		burstOnly = !latencyOnly && tp.Prob(1, 10, "burst-only")
		if burstOnly {
			rate, trate, burst, tburst = 0, 0, 0, 0
			if tp.Prob(1, 2, "burst-only-total") {
				tburst = tp.Pick("bo-tburst", 100, 7, 4096)
			} else {
				burst = tp.Pick("bo-burst", 100, 7, 4096)
			}
		}
		latency = time.Duration(tp.Pick("latency-ms", 0, 0, 1, 300, 2000)) * time.Millisecond
		if latencyOnly && latency == 0 {
			latency = time.Duration(tp.Pick("latency-only-ms", 300, 1, 2000)) * time.Millisecond
		}
		// rates below one byte per second are rates too
		if rate == 1 && tp.Prob(1, 2, "fractional-rate") {
			rate = 0.5
		}
		if trate == 5 && tp.Prob(1, 2, "fractional-trate") {
			trate = 0.25
		}
		h := &l4throttle.Handler{ReadBytesPerSecond: rate, ReadBurstSize: burst, TotalReadBytesPerSecond: trate, TotalReadBurstSize: tburst, Latency: caddy.Duration(latency)}
		if tp.Prob(1, 3, "caddyfile") {
			// the same configuration given as Caddyfile text and read by the shipped parser
			text := "throttle {\n"
			if rate > 0 {
				text += "\tread_bytes_per_second " + strconv.FormatFloat(rate, 'f', -1, 64) + "\n"
			}
			if burst > 0 {
				text += "\tread_burst_size " + strconv.Itoa(burst) + "\n"
			}
			if trate > 0 {
				text += "\ttotal_read_bytes_per_second " + strconv.FormatFloat(trate, 'f', -1, 64) + "\n"
			}
			if tburst > 0 {
				text += "\ttotal_read_burst_size " + strconv.Itoa(tburst) + "\n"
			}
			if latency > 0 {
				text += "\tlatency " + latency.String() + "\n"
			}
			text += "}\n"
			h = &l4throttle.Handler{}
			if err := h.UnmarshalCaddyfile(caddyfile.NewTestDispenser(text)); err != nil {
				panic(fmt.Sprintf("caddyfile %q: %v", text, err))
			}
			sample.Caddyfile = text
		}
		if err := h.Provision(e.Ctx); err != nil {
			panic(err)
		}
		h.VerifSetLogger(e.Log)
		// the documented default: a rate without a burst size gets a burst of rate+1 bytes
		if rate > 0 && burst == 0 {
			burst = int(rate) + 1
		}
		if trate > 0 && tburst == 0 {
			tburst = int(trate) + 1
		}
		recBuf := tp.Pick("rec-maxbuf", 4096, 1, 64, 65536)
		// effective batch per read
		batch := recBuf
		if rate > 0 && burst < batch {
			batch = burst
		}
		if trate > 0 && tburst < batch {
			batch = tburst
		}
		if batch < 1 {
			batch = 1
		}
		nconn := 1 + tp.Weighted("nconn", 5, 2, 1, 1, 1)
		if nconn == 4 {
			nconn = 8
		} else if nconn == 5 {
			nconn = 16
		}
		maxLen := 250 * batch / nconn
		if maxLen > 60000 {
			maxLen = 60000
		}
		if maxLen < 4 {
			maxLen = 4
		}
		b := &Builder{E: e, Tag: "C17"}
		nested := tp.Prob(1, 4, "nested")
		hs := []layer4.NextHandler{
			&worlds.Consume{E: e, Name: "T0", K: 0, Tag: "C17", Sig: "throttle"},
			h,
		}
		if nested {
			sub := &RLSpec{Routes: []RSpec{{Sets: [][]MSpec{{{ID: "m1", Need: tp.Pick("need", 1, 5, 100), Kind: VYes}}},
				Handlers: []HSpec{{Kind: "recorder", Name: "rec", MaxBuf: recBuf}}}}}
			sh := HSpec{Kind: "subroute", Name: "sub", Sub: sub}
			hs = append(hs, b.Handler(&sh, "throttle"))
		} else {
			rh := HSpec{Kind: "recorder", Name: "rec", MaxBuf: recBuf}
			hs = append(hs, b.Handler(&rh, "throttle"))
		}
		routes := layer4.RouteList{layer4.VerifNewRoute(nil, hs)}
		w = e.NewTCPWorld(routes, 0)
		for i := 1; i <= nconn; i++ {
			n := 1 + tp.Choose(maxLen, "len")
			plan := &worlds.ClientPlan{ID: i, Addr: worlds.ClientAddr(i), End: worlds.EndHalfClose}
			if tp.Prob(1, 3, "start-late") {
				plan.StartAt = time.Duration(tp.Choose(3000, "start-ms")) * time.Millisecond
			}
			m := &worlds.ConnModel{ID: i, Key: e.S.Seed*31 + uint64(i), Addr: plan.Addr.String()}
			m.App = worlds.Stream(m.Key, n)
			plan.App = m.App
			plan.Chunks = e.MakeChunks(n, 50*time.Millisecond)
			e.Reg.Add(m)
			models = append(models, m)
			cl := e.StartClient(w.Ln, plan, m)
			w.Clients = append(w.Clients, cl)
			sample.StreamLen = append(sample.StreamLen, n)
		}
		sample.Rate, sample.Burst, sample.TotalRate, sample.TotalBurst = rate, burst, trate, tburst
		sample.Latency, sample.Conns, sample.RecBuf, sample.Nested = latency.String(), nconn, recBuf, nested
		for _, c := range w.Clients {
			_ = c
		}
		return w.Done
	}, func() {
		if e.S.Capped && !burstOnly {
			return
		}
		// (a burst without a rate never refills: the shipped handler then waits for good and the
		// run ends at the time cap; what was read until then is judged all the same)
		type rd struct {
			at time.Duration
			n  int
		}
		var all []rd
		firstAny := time.Duration(-1)
		waited := false
		for _, c := range w.Clients {
			if c.End == nil {
				continue
			}
			se := c.End.Peer().Snapshot()
			m := c.Model
			for _, hc := range m.HandlerCalls {
				if hc.Handler == "T0" {
					markAt[m.ID] = hc.At
				}
			}
			if burstOnly && burst > 0 && tburst == 0 && e.S.CappedBy == "time" && c.Wrote > 0 && len(se.Reads) == 0 {
				// independence (judged under C08): a byte budget per connection - every connection may use its own
				e.S.Fail("C17/interference", "per-conn-only", "conn %d of %d: the client wrote %d bytes but not one was read within %v although the connection has a byte budget of its own (burst %d, no rate)",
					m.ID, len(w.Clients), c.Wrote, e.S.SimElapsed, burst)
			}
			if !se.HasFirstRead {
				continue
			}
			t0 := se.FirstReadTry
			sample.FirstReads = append(sample.FirstReads, t0.String())
			if mk, ok := markAt[m.ID]; ok && latency > 0 && t0 < mk+latency {
				e.S.Fail("C17/latency", "throttle", "conn %d: first read attempted at %v, handler started at %v, configured latency %v", m.ID, t0, mk, latency)
			}
			if firstAny < 0 || t0 < firstAny {
				firstAny = t0
			}
			cum := 0
			prev := t0
			for _, r := range se.Reads {
				cum += r.N
				all = append(all, rd{r.At, r.N})
				if r.At > prev {
					waited = true
				}
				prev = r.At
				if rate > 0 || (burstOnly && burst > 0) {
					bound := float64(burst) + rate*(r.At-t0).Seconds() + 0.05
					if float64(cum) > bound {
						e.S.Fail("C17/rate-exceeded", "per-conn", "conn %d: %d bytes read by T=%v after the first read; limit burst %d + %v B/s * T = %.2f",
							m.ID, cum, r.At-t0, burst, rate, bound)
						break
					}
				}
			}
			// independence (judged under C08): with a per-connection limit only, the wait of a read for
			// tokens depends on this connection's own reads alone: the bucket is the connection's, its
			// reads are sequential, so a read asking for req bytes waits at most req/rate after the
			// previous one returned (the reader itself takes no simulated time)
			if rate > 0 && trate == 0 && tburst == 0 && !burstOnly {
				for i := 1; i < len(se.Reads); i++ {
					r, p := se.Reads[i], se.Reads[i-1]
					gap := r.CallAt - p.At
					allow := time.Duration(float64(r.Req)/rate*float64(time.Second)) + time.Millisecond
					if gap > allow {
						e.S.Fail("C17/interference", "per-conn-only", "conn %d of %d: read #%d (%d bytes asked) reached the socket %v after the previous read returned; with its own bucket (rate %v B/s, burst %d) the wait for tokens is at most %v - the allowance depends on the other connections",
							m.ID, len(w.Clients), i, r.Req, gap, rate, burst, allow)
						break
					}
				}
			}
			sample.Reads += len(se.Reads)
		}
		if (trate > 0 || (burstOnly && tburst > 0)) && len(all) > 0 {
			// sort by time (stable: already per-conn ordered; merge)
			for i := 1; i < len(all); i++ {
				for j := i; j > 0 && all[j].at < all[j-1].at; j-- {
					all[j], all[j-1] = all[j-1], all[j]
				}
			}
			cum := 0
			for i, r := range all {
				cum += r.n
				// all reads at the same instant count together
				if i+1 < len(all) && all[i+1].at == r.at {
					continue
				}
				bound := float64(tburst) + trate*(r.at-firstAny).Seconds() + 0.05
				if float64(cum) > bound {
					e.S.Fail("C17/rate-exceeded", "total", "all connections: %d bytes read by T=%v after the first read; limit burst %d + %v B/s * T = %.2f",
						cum, r.at-firstAny, tburst, trate, bound)
					break
				}
			}
		}
		if waited {
			e.S.Stats["probe_read_waited_for_tokens"]++
		}
		sample.SimTime = e.S.SimElapsed.String()
	})
	nontrivial := e.S.Stats["probe_read_waited_for_tokens"] > 0
	return nontrivial, sample
}
