// Package props holds one workload + oracle per property and the worker loop
// that runs seeds, shrinks failing tapes and writes replay files.
package props

import (
	"encoding/json"
	mrand "math/rand"
	"runtime"
	"fmt"
	"os"
	"sort"
	"strings"
	"testing"
	"time"

	"verif/sim/simkit"
	"verif/sim/worlds"
)

// RunResult is the outcome of one simulated run.
type RunResult struct {
	Seed       uint64            `json:"seed"`
	Failures   []simkit.Failure  `json:"failures,omitempty"`
	Hash       string            `json:"hash"`
	Steps      int               `json:"steps"`
	SimTime    time.Duration     `json:"sim_ns"`
	Capped     bool              `json:"capped,omitempty"`
	Nontrivial bool              `json:"nontrivial"`
	Stats      map[string]int    `json:"stats,omitempty"`
	Sample     any               `json:"sample,omitempty"`
	TapeLen    int               `json:"tape_len"`
	Log        []string          `json:"log,omitempty"`
	tape       []uint32
	noShrink   bool
}

// Prop is one property check.
type Prop struct {
	ID string
	// Run performs one simulated run driven by the tape.
	Run func(t *testing.T, env *worlds.Env, tier string) (nontrivial bool, sample any)
	// Rule describes generation and what counts as non-trivial/distinct.
	Rule string
	// MaxSteps etc. can be tuned per property.
	MaxSteps int
	MaxTime  time.Duration
}

var Registry = map[string]*Prop{}

var watchdogSecs = 90

func register(p *Prop) { Registry[p.ID] = p }

// RunOnce executes property p with the given tape.
func RunOnce(t *testing.T, p *Prop, seed uint64, tape *simkit.Tape, tier string, verbose bool) *RunResult {
	// the repository's random policies use the global math/rand source: pin it per run
	// (the test binary sets GODEBUG randseednop=0, see worker_test.go)
	mrand.Seed(int64(seed))
	env := worlds.NewEnv(seed, tape)
	env.S.Verbose = verbose
	tape.KeepLbl = verbose
	if p.MaxSteps > 0 {
		env.S.MaxSteps = p.MaxSteps
	}
	if p.MaxTime > 0 {
		env.S.MaxTime = p.MaxTime
	}
	res := &RunResult{Seed: seed}
	// real-time watchdog (armed outside the bubble, so it is a real timer): a run
	// that does not finish is harness trouble (exit 3), never a violation.
	wd := time.AfterFunc(time.Duration(watchdogSecs)*time.Second, func() {
		fmt.Fprintf(os.Stderr, "WATCHDOG: property %s seed %d did not finish within %ds of real time\n", p.ID, seed, watchdogSecs)
		buf := make([]byte, 1<<20)
		n := runtime.Stack(buf, true)
		os.Stderr.Write(buf[:n])
		os.Exit(3)
	})
	defer wd.Stop()
	var nontriv bool
	var sample any
	// Each run is a subtest: when the race detector has reported anything, the
	// testing package ends the goroutine that called synctest.Test (Goexit); the
	// results are in env.S by then.
	t.Run("run", func(st *testing.T) {
		nontriv, sample = p.Run(st, env, tier)
	})
	res.Failures = env.S.Failures
	res.Hash = env.S.Hash()
	res.Steps = env.S.Steps
	res.SimTime = env.S.SimElapsed
	res.Capped = env.S.Capped
	if env.S.Capped {
		env.S.Stats["capped_by_"+env.S.CappedBy]++
	}
	res.Nontrivial = nontriv
	res.Stats = env.S.Stats
	res.Sample = sample
	res.TapeLen = len(tape.Rec)
	res.tape = tape.Values()
	if verbose {
		res.Log = env.S.Log
	}
	return res
}

// Replay is the replay file format.
type Replay struct {
	Property string           `json:"property"`
	Seed     uint64           `json:"seed"`
	Tier     string           `json:"tier"`
	Tape     []uint32         `json:"tape"`
	Tag      string           `json:"tag"`
	Sig      string           `json:"sig"`
	Msg      string           `json:"msg"`
	Failures []simkit.Failure `json:"failures"`
	Trace    []string         `json:"trace"`
	Sample   any              `json:"sample,omitempty"`
	OrigLen  int              `json:"orig_tape_len"`
	Trials   int              `json:"shrink_trials"`
	Crash    bool             `json:"crash,omitempty"`
	FromSeed bool             `json:"generate_from_seed,omitempty"`
	Race     bool             `json:"race_build,omitempty"`
	// History: runs executed in the same process before this one (seeds First, First+Stride, ...,
	// Count of them, each generated from its seed). A violation that depends on state the code
	// under test keeps across connections of one process (a package-level pool or cache) replays
	// only together with the runs that put that state there.
	History *ReplayHistory `json:"history,omitempty"`
}

type ReplayHistory struct {
	First  uint64 `json:"first_seed"`
	Stride uint64 `json:"stride"`
	Count  int    `json:"count"`
}

func hasTag(fs []simkit.Failure, tag string) *simkit.Failure {
	for i := range fs {
		if fs[i].Tag == tag {
			return &fs[i]
		}
	}
	return nil
}

// Shrink minimises the tape while the same violation class (tag) recurs.
func Shrink(t *testing.T, p *Prop, seed uint64, tape []uint32, tag, tier string, budget time.Duration) ([]uint32, int) {
	start := time.Now()
	trials := 0
	try := func(cand []uint32) bool {
		if time.Since(start) > budget {
			return false
		}
		trials++
		r := RunOnce(t, p, seed, simkit.ReplayTape(cand), tier, false)
		return hasTag(r.Failures, tag) != nil
	}
	cur := append([]uint32(nil), tape...)
	// 1. tail truncation (binary search for the shortest failing prefix)
	lo, hi := 0, len(cur)
	for lo < hi && time.Since(start) < budget {
		mid := (lo + hi) / 2
		if try(cur[:mid]) {
			hi = mid
		} else {
			lo = mid + 1
		}
	}
	if hi < len(cur) && try(cur[:hi]) {
		cur = cur[:hi]
	}
	// 2. zero blocks, then delete blocks (ddmin style), then zero/decrement singles
	for pass := 0; pass < 3 && time.Since(start) < budget; pass++ {
		changed := false
		for bs := len(cur) / 2; bs >= 1 && time.Since(start) < budget; bs /= 2 {
			for i := 0; i+bs <= len(cur) && time.Since(start) < budget; {
				// zero
				allZero := true
				for _, v := range cur[i : i+bs] {
					if v != 0 {
						allZero = false
						break
					}
				}
				if !allZero {
					cand := append([]uint32(nil), cur...)
					for j := i; j < i+bs; j++ {
						cand[j] = 0
					}
					if try(cand) {
						cur = cand
						changed = true
					}
				}
				// delete
				cand := append(append([]uint32(nil), cur[:i]...), cur[i+bs:]...)
				if try(cand) {
					cur = cand
					changed = true
					continue
				}
				i += bs
			}
		}
		for i := 0; i < len(cur) && time.Since(start) < budget; i++ {
			for cur[i] > 0 {
				cand := append([]uint32(nil), cur...)
				cand[i] = cur[i] / 2
				if try(cand) {
					cur = cand
					changed = true
				} else {
					cand[i] = cur[i] - 1
					if cur[i] > 1 && try(cand) {
						cur = cand
						changed = true
					} else {
						break
					}
				}
			}
		}
		// drop trailing zeros (an exhausted tape yields zeros anyway)
		for len(cur) > 0 && cur[len(cur)-1] == 0 {
			cur = cur[:len(cur)-1]
		}
		if !changed {
			break
		}
	}
	return cur, trials
}

// WriteReplay shrinks (unless noShrink) and writes the replay file; returns its path.
func WriteReplay(t *testing.T, p *Prop, res *RunResult, tier, dir string, shrinkBudget time.Duration) (string, *Replay) {
	f := res.Failures[0]
	tape := res.tape
	trials := 0
	if shrinkBudget > 0 {
		tape, trials = Shrink(t, p, res.Seed, res.tape, f.Tag, tier, shrinkBudget)
	}
	// record the minimised run verbosely
	rr := RunOnce(t, p, res.Seed, simkit.ReplayTape(tape), tier, true)
	rep := &Replay{Property: p.ID, Seed: res.Seed, Tier: tier, Tape: tape, OrigLen: len(res.tape), Trials: trials, Sample: rr.Sample}
	if res.noShrink {
		// found by an external detector (race detector): the replay is the full tape
		rep.Tag, rep.Sig, rep.Msg, rep.Failures, rep.Race = f.Tag, f.Sig, f.Msg, res.Failures, true
		rep.Trace = tail(rr.Log, 200)
	} else if g := hasTag(rr.Failures, f.Tag); g != nil {
		rep.Tag, rep.Sig, rep.Msg = g.Tag, g.Sig, g.Msg
		rep.Failures = rr.Failures
		rep.Trace = tail(rr.Log, 400)
	} else {
		// minimised tape no longer reproduces verbosely (should not happen): keep the original
		rep.Tape = res.tape
		rr = RunOnce(t, p, res.Seed, simkit.ReplayTape(res.tape), tier, true)
		rep.Tag, rep.Sig, rep.Msg = f.Tag, f.Sig, f.Msg
		rep.Failures = rr.Failures
		rep.Trace = tail(rr.Log, 400)
		rep.Sample = rr.Sample
	}
	os.MkdirAll(dir, 0o755)
	path := fmt.Sprintf("%s/%s-%d.json", dir, strings.ReplaceAll(rep.Tag, "/", "_"), res.Seed)
	b, _ := json.MarshalIndent(rep, "", " ")
	os.WriteFile(path, b, 0o644)
	return path, rep
}

func tail(l []string, n int) []string {
	if len(l) > n {
		return l[len(l)-n:]
	}
	return l
}

// Summary is what a worker reports at the end.
type Summary struct {
	Property   string         `json:"property"`
	Rule       string         `json:"rule"`
	Tier       string         `json:"tier"`
	Runs       int            `json:"runs"`
	Nontrivial int            `json:"nontrivial"`
	Hashes     []string       `json:"hashes"` // schedule hashes of non-trivial runs
	Steps      int            `json:"steps"`
	SimNs      int64          `json:"sim_ns"`
	Capped     int            `json:"capped"`
	Stats      map[string]int `json:"stats"`
	Samples    []any          `json:"samples"`
	Violations []Violation    `json:"violations"`
	WallS      float64        `json:"wall_s"`
	FirstSeed  uint64         `json:"first_seed"`
	// ResumeAt > 0: the worker stopped before run index ResumeAt (memory held by goroutines
	// that earlier runs left behind); the driver continues from there in a fresh process
	ResumeAt   int            `json:"resume_at,omitempty"`
	LastSeed   uint64         `json:"last_seed"`
	AllHashes  map[string]string `json:"all_hashes,omitempty"` // seed -> hash (determinism test)
}

type Violation struct {
	Seed   uint64 `json:"seed"`
	Tag    string `json:"tag"`
	Sig    string `json:"sig"`
	Msg    string `json:"msg"`
	Replay string `json:"replay"`
	Count  int    `json:"count"`
}

func sortedKeys(m map[string]int) []string {
	var ks []string
	for k := range m {
		ks = append(ks, k)
	}
	sort.Strings(ks)
	return ks
}

// lk/ulk: the simulation lock (transparent to the race detector).
func lk()  { simkit.Cur.Lock() }
func ulk() { simkit.Cur.Unlock() }
