package props

import (
	"github.com/caddyserver/caddy/v2/caddyconfig/caddyfile"
	"bytes"
	"fmt"
	"io"
	"net"
	"sort"
	"strings"
	"testing"
	"time"

	"github.com/mholt/caddy-l4/layer4"
	"github.com/mholt/caddy-l4/modules/l4socks"

	"verif/sim/simnet"
	"verif/sim/worlds"
)

type c16Sample struct {
	Commands []string          `json:"commands"`
	Creds    map[string]string `json:"credentials"`
	Greeting string            `json:"greeting"`
	Auth     string            `json:"auth"`
	Request  string            `json:"request"`
	Cut      string            `json:"truncation"`
	Model    string            `json:"model_verdict"`
	Replies  string            `json:"replies_hex"`
	Dials    []string          `json:"outbound"`
	Net      simnet.Cfg        `json:"net"`
}

func init() {
	register(&Prop{
		ID:   "C16",
		Rule: "each run provisions the real SOCKS5 handler (go-socks5 underneath, its net.Dial/net.ListenUDP/resolver redirected to the simulated network) with a drawn command subset, credential map (none, one, several users; empty user names and passwords) and bind IP, and scripts one client negotiation: method lists with and without an acceptable method, right / wrong / other user's credentials, every command code class and address type (IPv4, IPv6, domain, invalid), wrong versions, truncation and close at any point, all segmentations. A small RFC 1928/1929 model decides whether the request is permitted; the census of outbound dials and UDP binds must be empty otherwise, a permitted CONNECT dials exactly the requested target once and relays, and non-permitted requests are answered with a refusal. Non-trivial: the negotiation reached the request stage; distinct: event-log hashes.",
		Run:  runC16,
	})
}

func runC16(t *testing.T, e *worlds.Env, tier string) (bool, any) {
	sample := &c16Sample{}
	var w *worlds.TCPWorld
	var replies []byte
	clientDone := false
	permitted := false
	reachedRequest := false
	var wantTarget string
	cmd := byte(0)
	var echoed, echoWant []byte
	connectOK := false
	e.Run(t, func() func() bool {
		tp := e.T
		e.N.Cfg = netKnobs(e)
		e.N.Cfg.Window = 0
		yieldKnob(e)
		// configuration
		var cmds []string
		enabled := map[byte]bool{}
		switch tp.Weighted("cmds", 3, 2, 2, 1, 1, 1, 1, 1, 1, 1) {
		case 9:
			// a list that names nothing (blank entries, an unset placeholder): either the
			// configuration is refused, or nothing is enabled - never the defaults
			cmds = [][]string{{""}, {" "}, {"{env.VERIF_NEVER_SET}"}, {"", " "}}[tp.Choose(4, "blank-cmds")]
		case 6:
			cmds = []string{"connect"}
			enabled[1] = true
		case 7:
			cmds = []string{"Associate"}
			enabled[3] = true
		case 8:
			cmds = []string{"bind"}
			enabled[2] = true
		case 0: // default: CONNECT + ASSOCIATE
			enabled[1], enabled[3] = true, true
		case 1:
			cmds = []string{"CONNECT"}
			enabled[1] = true
		case 2:
			cmds = []string{"ASSOCIATE"}
			enabled[3] = true
		case 3:
			cmds = []string{"BIND"}
			enabled[2] = true
		case 4:
			cmds = []string{"connect", "Bind", "ASSOCIATE"}
			enabled[1], enabled[2], enabled[3] = true, true, true
		case 5:
			cmds = []string{"BIND", "ASSOCIATE"}
			enabled[2], enabled[3] = true, true
		}
		var creds map[string]string
		switch tp.Weighted("creds", 4, 2, 2, 1, 1, 2, 2, 2) {
		case 7:
			// names and passwords with outer whitespace are what they are, byte for byte
			creds = map[string]string{"carol": "  ", "dave ": "pw", " erin": "x\n", "heidi": "pass"}
		case 6:
			// a user name given as a placeholder that resolves to a real name (the environment
			// variable is set by the worker): that user's password is the configured one
			creds = map[string]string{"{env.VERIF_SOCKS_USER}": "s3cret", "gina": "pw"}
		case 5:
			// a user name given as a placeholder that resolves to nothing: not a user
			creds = map[string]string{"{env.VERIF_NEVER_SET}": "nobody", "erin": "pw"}
		case 1:
			creds = map[string]string{"alice": "wonder"}
		case 2:
			creds = map[string]string{"alice": "wonder", "bob": "builder", "carol": ""}
		case 3:
			creds = map[string]string{"": "nobody"}
		case 4:
			creds = map[string]string{"": "x", "dave": "pw"}
		}
		sample.Commands, sample.Creds = cmds, creds
		h := &l4socks.Socks5Handler{Commands: cmds, Credentials: creds, BindIP: tp.Pick2("bind-ip", "", "10.0.0.1")}
		if _, ws := creds["dave "]; !ws && tp.Prob(1, 4, "caddyfile") {
			// the same configuration written as Caddyfile text and read by the shipped parser
			q := func(s string) string {
				return "\"" + strings.ReplaceAll(strings.ReplaceAll(s, "\\", "\\\\"), "\"", "\\\"") + "\""
			}
			text := "socks5 {\n"
			if h.BindIP != "" {
				text += "\tbind_ip " + q(h.BindIP) + "\n"
			}
			if len(cmds) > 0 {
				text += "\tcommands"
				for _, c := range cmds {
					text += " " + q(c)
				}
				text += "\n"
			}
			var users []string
			for u := range creds {
				users = append(users, u)
			}
			sort.Strings(users)
			for _, u := range users {
				text += "\tcredentials " + q(u) + " " + q(creds[u]) + "\n"
			}
			text += "}\n"
			h2 := &l4socks.Socks5Handler{}
			if err := h2.UnmarshalCaddyfile(caddyfile.NewTestDispenser(text)); err != nil {
				panic(fmt.Sprintf("caddyfile %q: %v", text, err))
			}
			h = h2
			sample.Model += "(configured by Caddyfile) "
		}
		if err := h.Provision(e.Ctx); err != nil {
			// the configuration was refused (unknown or blank command names): nothing is served
			sample.Model = "configuration refused: " + err.Error()
			return func() bool { return true }
		}
		if tp.Prob(1, 4, "other-handler") {
			// another socks5 handler of the same process, provisioned later with other commands and
			// credentials (a second route, or the configuration after a reload): what it allows is its own business
			other := &l4socks.Socks5Handler{Commands: []string{"CONNECT", "ASSOCIATE", "BIND"}, Credentials: map[string]string{"zed": "zed"}}
			if tp.Prob(1, 2, "other-noauth") {
				other.Credentials = nil
			}
			_ = other.Provision(e.Ctx)
			sample.Model += "(another handler provisioned afterwards) "
		}
		valid := map[string]string{}
		for k, v := range creds {
			if k == "{env.VERIF_SOCKS_USER}" {
				k = "frank"
			}
			if k != "" && !strings.Contains(k, "{env.VERIF_NEVER_SET}") { // (resolves to the empty name)
				valid[k] = v
			}
		}
		authRequired := len(creds) > 0
		routes := layer4.RouteList{layer4.VerifNewRoute(nil, []layer4.NextHandler{h})}
		w = e.NewTCPWorld(routes, 0)
		// targets
		ups := e.NewProxyUps()
		ups.ScriptFor = func(string, int) *worlds.UpScript { return &worlds.UpScript{Mode: worlds.UpEcho, AbortAt: -1} }
		ups.Add("tcp", "10.2.0.1:80", tp.Pick("dial-lat-ms", 0, 0, 5))
		ups.Add("tcp", "[2001:db8::2]:80", 0)
		e.N.Resolve["target.sim"] = net.ParseIP("10.2.0.1")

		// ---- client script -------------------------------------------------------
		var greeting, auth, request []byte
		ver := byte(5)
		if tp.Prob(1, 12, "bad-ver") {
			ver = byte(tp.Pick("ver", 4, 6, 0, 255))
		}
		var methods []byte
		switch tp.Weighted("methods", 4, 3, 2, 1, 1, 1) {
		case 0:
			methods = []byte{0}
		case 1:
			methods = []byte{2}
		case 2:
			methods = []byte{0, 2}
		case 3:
			methods = []byte{1, 0x80, 0xfe}
		case 4:
			methods = []byte{2, 0}
		case 5:
			methods = nil
		}
		greeting = append([]byte{ver, byte(len(methods))}, methods...)
		sample.Greeting = fmt.Sprintf("ver=%d methods=%v", ver, methods)
		// model: which method does the server pick?
		serverMethod := byte(0xff)
		if ver == 5 {
			for _, m := range methods {
				if (authRequired && m == 2) || (!authRequired && m == 0) {
					serverMethod = m
					break
				}
			}
		}
		authed := serverMethod == 0
		user, pass := "", ""
		authVer := byte(1)
		if serverMethod == 2 {
			authKind := tp.Weighted("auth", 4, 2, 2, 1, 1, 1, 1, 0, 2, 2)
			if _, ok := creds["{env.VERIF_SOCKS_USER}"]; ok && tp.Prob(1, 2, "auth-frank") {
				authKind = 7
			}
			if _, ok := creds["dave "]; ok && tp.Prob(1, 2, "auth-trimmed") {
				authKind = 9
			}
			if _, ok := creds["{env.VERIF_NEVER_SET}"]; ok && tp.Prob(1, 2, "auth-empty-name") {
				authKind = 6
			}
			pickValid := func() (string, string, bool) {
				var names []string
				for k := range valid {
					names = append(names, k)
				}
				sort.Strings(names)
				if len(names) == 0 {
					return "", "", false
				}
				u := names[tp.Choose(len(names), "user")]
				return u, valid[u], true
			}
			switch authKind {
			case 8:
				// a configured pair with the boundary between name and password moved
				if u, p, ok := pickValid(); ok && len(u)+len(p) > 0 {
					s := u + p
					k := tp.Choose(len(s)+1, "shift-at")
					user, pass = s[:k], s[k:]
				}
			case 9:
				// a configured pair without its outer whitespace
				if u, p, ok := pickValid(); ok {
					user, pass = strings.TrimSpace(u), strings.TrimSpace(p)
				}
			case 7:
				user, pass = "frank", tp.Pick2("frank-pass", "", "s3cret", "pw") // the resolved name with an empty / the right / another user's password
			case 6:
				user, pass = "", "nobody" // the password configured for a name that resolves to nothing
			case 0: // right credentials of some entry
				var names []string
				for k := range valid {
					names = append(names, k)
				}
				sort.Strings(names)
				if len(names) > 0 {
					user = names[tp.Choose(len(names), "user")]
					pass = valid[user]
				} else {
					user, pass = "", creds[""]
				}
			case 1:
				user, pass = "alice", "wrong"
			case 2:
				user, pass = "mallory", "wonder"
			case 3:
				user, pass = "alice", "builder" // another entry's password
			case 4:
				user, pass = "", ""
			case 5:
				user, pass = "alice", "wonder"
				authVer = byte(tp.Pick("auth-ver", 0, 2, 5))
			}
			auth = append([]byte{authVer, byte(len(user))}, user...)
			auth = append(auth, byte(len(pass)))
			auth = append(auth, pass...)
			want, ok := valid[user]
			authed = authVer == 1 && ok && want == pass
			sample.Auth = fmt.Sprintf("ver=%d user=%q pass=%q -> model authenticated=%v", authVer, user, pass, authed)
		}
		// request
		cmd = byte(tp.Pick("cmd", 1, 2, 3, 0, 4, 9, 0x80, 255))
		rver := byte(5)
		if tp.Prob(1, 12, "bad-rver") {
			rver = byte(tp.Pick("rver", 4, 0, 1))
		}
		atyp := byte(tp.Pick("atyp", 1, 3, 4, 0, 2, 5))
		request = []byte{rver, cmd, 0, atyp}
		atypOK := true
		switch atyp {
		case 1:
			request = append(request, 10, 2, 0, 1, 0, 80)
			wantTarget = "10.2.0.1:80"
		case 4:
			request = append(request, net.ParseIP("2001:db8::2").To16()...)
			request = append(request, 0, 80)
			wantTarget = "[2001:db8::2]:80"
		case 3:
			name := tp.Pick2("fqdn", "target.sim", "nowhere.sim")
			request = append(request, byte(len(name)))
			request = append(request, name...)
			request = append(request, 0, 80)
			wantTarget = "10.2.0.1:80"
			if name != "target.sim" {
				atypOK = false // unresolvable: refused before any connection
			}
		default:
			atypOK = false
			request = append(request, 1, 2, 3, 4, 0, 80)
		}
		sample.Request = fmt.Sprintf("ver=%d cmd=%d atyp=%d", rver, cmd, atyp)
		permitted = authed && rver == 5 && atypOK && enabled[cmd]
		sample.Model = fmt.Sprintf("method=%#x authenticated=%v permitted=%v", serverMethod, authed, permitted)
		// a client that does not take no for an answer: after a refusal (no acceptable method,
		// failed authentication) it sends the next message anyway
		pushy := tp.Prob(1, 3, "pushy")
		if pushy {
			sample.Cut = "ignores refusals; "
		}
		// truncation / early close
		cutStage, cutAt := -1, 0
		if tp.Prob(1, 5, "cut") {
			cutStage = tp.Choose(3, "cut-stage")
			sample.Cut += fmt.Sprintf("stage %d", cutStage)
		}
		sendMsg := func(conn net.Conn, stage int, msg []byte) bool {
			if cutStage == stage {
				cutAt = tp.Choose(len(msg)+1, "cut-at")
				msg = msg[:cutAt]
			}
			// client-level segmentation
			for _, ch := range e.MakeChunks(len(msg), 5*time.Millisecond) {
				if ch.Delay > 0 {
					time.Sleep(ch.Delay)
				}
				if _, err := conn.Write(msg[:ch.N]); err != nil {
					return false
				}
				msg = msg[ch.N:]
			}
			return cutStage != stage
		}
		e.S.Go("c1", func() {
			defer func() {
				lk()
				clientDone = true
				ulk()
			}()
			end, err := e.N.Connect(w.Ln, "c1", worlds.ClientAddr(1))
			if err != nil {
				return
			}
			conn := end.Conn()
			defer conn.Close()
			read := func(n int) ([]byte, bool) {
				b := make([]byte, n)
				k, err := io.ReadFull(conn, b)
				lk()
				replies = append(replies, b[:k]...)
				ulk()
				return b, err == nil
			}
			if !sendMsg(conn, 0, greeting) {
				return
			}
			mr, ok := read(2)
			if !ok || mr[0] != 5 {
				return
			}
			if mr[1] == 0xff && !pushy {
				return
			}
			if mr[1] == 2 {
				if auth == nil {
					return
				}
				if !sendMsg(conn, 1, auth) {
					return
				}
				ar, ok := read(2)
				if !ok {
					return
				}
				if ar[1] != 0 && !pushy {
					return
				}
			}
			lk()
			reachedRequest = true
			ulk()
			if !sendMsg(conn, 2, request) {
				return
			}
			rp, ok := read(4)
			if !ok {
				return
			}
			// consume the bound address
			switch rp[3] {
			case 1:
				read(6)
			case 4:
				read(18)
			case 3:
				if l, ok := read(1); ok {
					read(int(l[0]) + 2)
				}
			}
			if rp[1] == 0 && cmd == 1 {
				lk()
				connectOK = true
				ulk()
				echoWant = worlds.Stream(e.S.Seed+5, 1+e.S.Choose(3000, "echo-len"))
				if _, err := conn.Write(echoWant); err != nil {
					return
				}
				got := make([]byte, len(echoWant))
				k, _ := io.ReadFull(conn, got)
				lk()
				echoed = got[:k]
				ulk()
			}
		})
		sample.Net = e.N.Cfg
		return func() bool {
			lk()
			d := clientDone
			ulk()
			return d && w.Done() && len(liveWith(e, "srv.1")) == 0 && len(liveWith(e, "up:")) == 0
		}
	}, func() {
		sample.Replies = fmt.Sprintf("% x", head(replies, 40))
		if permitted {
			e.S.Stats["probe_model_permits"]++
		}
		if connectOK {
			e.S.Stats["probe_connect_relayed"]++
		}
		if reachedRequest && !permitted {
			e.S.Stats["probe_refused_at_request_stage"]++
		}
		var out []string
		var tcpDials, udpBinds []simnet.DialRec
		for _, d := range e.N.DialsSnapshot() {
			out = append(out, fmt.Sprintf("%s %s ok=%v by=%s", d.Network, d.Addr, d.OK, d.By))
			if d.Network == "listen-udp" {
				udpBinds = append(udpBinds, d)
			} else {
				tcpDials = append(tcpDials, d)
			}
		}
		sample.Dials = out
		if e.S.Capped {
			return
		}
		sig := "socks5"
		fail := func(kind, format string, a ...any) { e.S.Fail("C16/"+kind, sig, format, a...) }
		if !permitted {
			if len(tcpDials)+len(udpBinds) > 0 {
				fail("outbound-not-permitted", "the model refuses this negotiation (%s; greeting %s; auth %s; request %s) but the handler created outbound activity: %v",
					sample.Model, sample.Greeting, sample.Auth, sample.Request, out)
				return
			}
			if connectOK {
				fail("success-reply-not-permitted", "the handler answered success to a request the model refuses (%s)", sample.Model)
			}
			return
		}
		if !reachedRequest {
			return // truncated / closed before the request was sent completely
		}
		switch cmd {
		case 1:
			if len(udpBinds) > 0 || len(tcpDials) > 1 {
				fail("extra-outbound", "permitted CONNECT to %s produced %v", wantTarget, out)
				return
			}
			if len(tcpDials) == 1 && tcpDials[0].Addr != wantTarget {
				fail("wrong-target", "CONNECT to %s dialed %s", wantTarget, tcpDials[0].Addr)
				return
			}
			if connectOK && !bytes.Equal(echoed, echoWant) && sample.Cut == "" {
				fail("relay", "CONNECT relay returned %d bytes, want the %d bytes sent (prefix equal: %v)", len(echoed), len(echoWant), bytes.HasPrefix(echoWant, echoed))
			}
		case 2:
			if len(tcpDials)+len(udpBinds) > 0 {
				fail("extra-outbound", "BIND produced %v", out)
			}
		case 3:
			if len(tcpDials) > 0 {
				fail("extra-outbound", "ASSOCIATE dialed %v", out)
			}
		}
	})
	_ = strings.Join
	return reachedRequest, sample
}
