//go:debug randseednop=0
package props

import (
	"runtime"
	"strings"
	"bufio"
	"encoding/json"
	"fmt"
	"os"
	"strconv"
	"testing"
	"time"

	"verif/sim/simkit"
)

func init() { os.Setenv("VERIF_SOCKS_USER", "frank") }

func envInt(name string, def int) int {
	if v := os.Getenv(name); v != "" {
		if n, err := strconv.Atoi(v); err == nil {
			return n
		}
	}
	return def
}

// TestWorker is the entry point used by /verif/check:
//
//	VERIF_PROP=C01 VERIF_TIER=quick VERIF_START=1000 VERIF_COUNT=500 VERIF_STRIDE=1
//	VERIF_OUT=/path/result.jsonl VERIF_REPLAY_DIR=/verif/replays/C01 VERIF_BUDGET_S=60
//	./props.test -test.run '^TestWorker$'
func TestWorker(t *testing.T) {
	id := os.Getenv("VERIF_PROP")
	if id == "" {
		t.Skip("VERIF_PROP not set")
	}
	p := Registry[id]
	if p == nil {
		fmt.Fprintf(os.Stderr, "unknown property %q\n", id)
		os.Exit(2)
	}
	tier := os.Getenv("VERIF_TIER")
	if tier == "" {
		tier = "quick"
	}
	start := uint64(envInt("VERIF_START", 1))
	count := envInt("VERIF_COUNT", 100)
	stride := uint64(envInt("VERIF_STRIDE", 1))
	budget := time.Duration(envInt("VERIF_BUDGET_S", 3600)) * time.Second
	shrinkBudget := time.Duration(envInt("VERIF_SHRINK_S", 20)) * time.Second
	replayDir := os.Getenv("VERIF_REPLAY_DIR")
	if replayDir == "" {
		replayDir = os.TempDir()
	}
	keepAll := os.Getenv("VERIF_ALL_HASHES") != ""
	maxViol := envInt("VERIF_MAX_VIOLATIONS", 8)
	out := os.Stdout
	if path := os.Getenv("VERIF_OUT"); path != "" {
		f, err := os.Create(path)
		if err != nil {
			fmt.Fprintln(os.Stderr, err)
			os.Exit(2)
		}
		defer f.Close()
		out = f
	}
	w := bufio.NewWriter(out)
	emit := func(kind string, v any) {
		b, _ := json.Marshal(v)
		fmt.Fprintf(w, "%s %s\n", kind, b)
		w.Flush()
	}
	sum := &Summary{Property: id, Rule: p.Rule, Tier: tier, Stats: map[string]int{}, FirstSeed: start}
	if keepAll {
		sum.AllHashes = map[string]string{}
	}
	seenSig := map[string]*Violation{}
	raceLog := ""
	var raceOff int64
	if pfx := os.Getenv("VERIF_RACE_LOG"); pfx != "" {
		raceLog = fmt.Sprintf("%s.%d", pfx, os.Getpid())
	}
	t0 := time.Now()
	// Goroutines left behind by earlier runs (blocked for good in bubbles that have ended: a
	// handler waiting on a server loop that is gone, say) keep their memory. A worker that
	// has accumulated too much of that stops and tells the driver where to resume in a
	// fresh process.
	maxHeap := uint64(envInt("VERIF_MAX_HEAP_MB", 1536)) << 20
	for i := 0; i < count; i++ {
		if time.Since(t0) > budget {
			break
		}
		if i > 0 && i%512 == 0 {
			var ms runtime.MemStats
			runtime.ReadMemStats(&ms)
			if ms.HeapInuse+ms.StackInuse > maxHeap || runtime.NumGoroutine() > 60000 {
				sum.ResumeAt = i
				break
			}
		}
		seed := start + uint64(i)*stride
		fmt.Fprintf(w, "BEGIN %d\n", seed)
		w.Flush()
		// VERIF_TRACE_SEED=<seed>: keep that run's event log and write it to VERIF_OUT.trace (to find
		// what differs when the determinism self-test reports a divergent seed)
		traceIt := os.Getenv("VERIF_TRACE_SEED") == strconv.FormatUint(seed, 10)
		res := RunOnce(t, p, seed, simkit.NewTape(seed), tier, traceIt)
		if traceIt {
			_ = os.WriteFile(os.Getenv("VERIF_OUT")+".trace", []byte(res.Hash+"\n"+strings.Join(res.Log, "\n")+"\n"), 0o644)
		}
		sum.Runs++
		sum.LastSeed = seed
		sum.Steps += res.Steps
		sum.SimNs += int64(res.SimTime)
		if res.Capped {
			sum.Capped++
		}
		for k, v := range res.Stats {
			if strings.HasPrefix(k, "max_") {
				if v > sum.Stats[k] {
					sum.Stats[k] = v
				}
				continue
			}
			sum.Stats[k] += v
		}
		if res.Nontrivial {
			sum.Nontrivial++
			sum.Hashes = append(sum.Hashes, res.Hash)
		}
		if keepAll {
			sum.AllHashes[strconv.FormatUint(seed, 10)] = res.Hash
		}
		if len(sum.Samples) < 3 && res.Sample != nil && (res.Nontrivial || i > count/2) {
			sum.Samples = append(sum.Samples, map[string]any{"seed": seed, "steps": res.Steps, "sim_time": res.SimTime.String(), "case": res.Sample})
		}
		if raceLog != "" {
			for _, rr := range newRaceReports(raceLog, &raceOff) {
				sum.Stats["race_reports_total"]++
				if !rr.repo {
					sum.Stats["race_reports_outside_repo_ignored"]++
					continue
				}
				// race reports come first: in the race phase they are what is being looked for
				res.Failures = append([]simkit.Failure{{Tag: "C08/data-race", Sig: rr.sig, Msg: rr.msg}}, res.Failures...)
				res.noShrink = true
			}
		}
		if len(res.Failures) > 0 {
			f := res.Failures[0]
			key := f.Tag + "|" + f.Sig
			if v, ok := seenSig[key]; ok {
				v.Count++
			} else if len(seenSig) < maxViol {
				sb := shrinkBudget
				if res.noShrink {
					sb = 0
				}
				path, rep := WriteReplay(t, p, res, tier, replayDir, sb)
				v := &Violation{Seed: seed, Tag: rep.Tag, Sig: rep.Sig, Msg: rep.Msg, Replay: path, Count: 1}
				seenSig[key] = v
				emit("VIOL", v)
			}
		}
	}
	for _, v := range seenSig {
		sum.Violations = append(sum.Violations, *v)
	}
	sum.WallS = time.Since(t0).Seconds()
	emit("SUMMARY", sum)
}

// TestReplay re-executes a replay file: VERIF_REPLAY=path. Prints
// "REPRODUCED <tag>" or "NOT-REPRODUCED".
func TestReplay(t *testing.T) {
	path := os.Getenv("VERIF_REPLAY")
	if path == "" {
		t.Skip("VERIF_REPLAY not set")
	}
	b, err := os.ReadFile(path)
	if err != nil {
		fmt.Fprintln(os.Stderr, err)
		os.Exit(2)
	}
	var rep Replay
	if err := json.Unmarshal(b, &rep); err != nil {
		fmt.Fprintln(os.Stderr, err)
		os.Exit(2)
	}
	p := Registry[rep.Property]
	if p == nil {
		fmt.Fprintf(os.Stderr, "unknown property %q\n", rep.Property)
		os.Exit(2)
	}
	verbose := os.Getenv("VERIF_VERBOSE") != ""
	tape := simkit.ReplayTape(rep.Tape)
	if rep.FromSeed {
		tape = simkit.NewTape(rep.Seed)
	}
	if h := rep.History; h != nil {
		for i := 0; i < h.Count; i++ {
			s := h.First + uint64(i)*h.Stride
			RunOnce(t, p, s, simkit.NewTape(s), rep.Tier, false)
		}
	}
	res := RunOnce(t, p, rep.Seed, tape, rep.Tier, verbose)
	if verbose {
		for _, l := range res.Log {
			fmt.Println(l)
		}
	}
	fmt.Printf("HASH %s\n", res.Hash)
	if pfx := os.Getenv("VERIF_RACE_LOG"); pfx != "" {
		var off int64
		for _, rr := range newRaceReports(fmt.Sprintf("%s.%d", pfx, os.Getpid()), &off) {
			if rr.repo {
				res.Failures = append(res.Failures, simkit.Failure{Tag: "C08/data-race", Sig: rr.sig, Msg: rr.msg})
			}
		}
		for _, f := range res.Failures {
			if f.Tag == rep.Tag && f.Sig == rep.Sig {
				fmt.Printf("REPRODUCED %s sig=%s :: %s\n", f.Tag, f.Sig, f.Msg)
				return
			}
		}
	}
	if f := hasTag(res.Failures, rep.Tag); f != nil {
		fmt.Printf("REPRODUCED %s sig=%s :: %s\n", f.Tag, f.Sig, f.Msg)
		return
	}
	for _, f := range res.Failures {
		fmt.Printf("OTHER %s sig=%s :: %s\n", f.Tag, f.Sig, f.Msg)
	}
	fmt.Println("NOT-REPRODUCED")
}
