package props

import (
	"errors"
	"fmt"
	"net"
	"sort"
	"strconv"
	"strings"
	"testing"
	"time"

	"verif/sim/simnet"
	"verif/sim/worlds"
)

// ---- executable specification of the documented routing rules ------------------

const (
	sNo = iota
	sYes
	sMore
	sErr
)

func specMatcher(m *MSpec, vis []byte) int {
	var v int
	switch m.m.Spec(vis) {
	case 1:
		v = sYes
	case 0:
		v = sNo
	case 2:
		return sMore
	default:
		return sErr
	}
	if m.Not {
		// MatchNot: its sets are evaluated in order; an error (incl. need-more) of a set
		// propagates at once; a set that matches makes the not a no; if none matches it is a yes.
		// The first set may hold a second matcher (AND, evaluated in order on the same bytes, only
		// if the first said yes); a second set holds one matcher.
		if v == sYes && m.And != nil {
			switch m.And.m.Spec(vis) {
			case 1:
				v = sYes
			case 0:
				v = sNo
			case 2:
				return sMore
			default:
				return sErr
			}
		}
		if v == sYes {
			return sNo
		}
		if m.Or != nil {
			switch m.Or.m.Spec(vis) {
			case 1:
				return sNo
			case 0:
			case 2:
				return sMore
			default:
				return sErr
			}
		}
		return sYes
	}
	return v
}

// specRoute: sets are OR'ed in order, matchers AND'ed in order, any
// error (need-more included) terminates evaluation; no sets = match all.
func specRoute(r *RSpec, vis []byte) int {
	if len(r.Sets) == 0 {
		return sYes
	}
	for si := range r.Sets {
		set := sYes
		for mi := range r.Sets[si] {
			v := specMatcher(&r.Sets[si][mi], vis)
			if v != sYes {
				set = v
				break
			}
		}
		switch set {
		case sYes:
			return sYes
		case sMore, sErr:
			return set
		}
	}
	return sNo
}

// listInfo indexes the annotated configuration.
type listInfo struct {
	id     string
	spec   *RLSpec
	parent string // id of the enclosing list ("" for the top list)
}

type c02cfg struct {
	lists    map[string]*listInfo
	matcherL map[string]string // matcher id -> list id
	order    []string
}

// annotate inserts a visible-mark as first handler of every route ("R:<list>/<i>")
// and a fallback mark right after every subroute handler ("F:<sublist>").
func annotate(rl *RLSpec, id, parent string, cfg *c02cfg) {
	cfg.lists[id] = &listInfo{id: id, spec: rl, parent: parent}
	cfg.order = append(cfg.order, id)
	for i := range rl.Routes {
		r := &rl.Routes[i]
		for si := range r.Sets {
			for mi := range r.Sets[si] {
				cfg.matcherL[r.Sets[si][mi].ID] = id
				if a := r.Sets[si][mi].And; a != nil {
					cfg.matcherL[a.ID] = id
				}
				if o := r.Sets[si][mi].Or; o != nil {
					cfg.matcherL[o.ID] = id
				}
			}
		}
		rid := id + "/" + strconv.Itoa(i)
		hs := []HSpec{{Kind: "vmark", Name: "R:" + rid}}
		for _, h := range r.Handlers {
			if h.Kind == "subroute" {
				hs = append(hs, HSpec{Kind: "vmark", Name: "E:" + rid + "s"})
			}
			hs = append(hs, h)
			if h.Kind == "subroute" {
				sub := rid + "s"
				annotate(h.Sub, sub, id, cfg)
				hs = append(hs, HSpec{Kind: "vmark", Name: "F:" + sub})
			}
		}
		r.Handlers = hs
	}
}

type c02Sample struct {
	Config   *RLSpec               `json:"config"`
	AppLen   int                   `json:"app_len"`
	Evals    int                   `json:"matcher_evaluations"`
	Rounds   []int                 `json:"visible_per_round"`
	Handlers []worlds.HandlerCall  `json:"handler_calls"`
	Verdicts string                `json:"verdict_sequence"`
	ClientEnd int                  `json:"client_end"`
	LateTail bool                  `json:"tail_after_matching_timeout,omitempty"`
}

func init() {
	register(&Prop{
		ID:   "C02",
		Rule: "each run draws a route list (1-4 routes, nested subroutes to depth 2; matcher sets with and/or/not over spec matchers with published pure verdict functions incl. never-deciding and erroring ones; terminal recorders, non-terminal consume-k handlers), a client stream and arrival schedule; the recorded history (leaf evaluations, handler invocations with offset and visible bytes, fallback marks) is checked against an independent executable spec of the documented combination rules. Non-trivial: >=2 prefetch rounds or >=2 routes evaluated; distinct: distinct (config shape, verdict sequence) classes.",
		Run:  runC02,
	})
}

func runC02(t *testing.T, e *worlds.Env, tier string) (bool, any) {
	var w *worlds.TCPWorld
	var cl, cl2 *worlds.Client
	var model, model2 *worlds.ConnModel
	var spec *RLSpec
	var hist []worlds.MatchEval
	cfg := &c02cfg{lists: map[string]*listInfo{}, matcherL: map[string]string{}}
	sample := &c02Sample{}
	e.Run(t, func() func() bool {
		e.N.Cfg = netKnobs(e)
		yieldKnob(e)
		b := &Builder{E: e, Tag: "C02", Hist: &hist}
		o := &genOpts{wrappers: false, maxDepth: 2, maxRoutes: 4, noEcho: true,
			allowFail: e.T.Prob(1, 4, "allow-fail"), allowNever: e.T.Prob(1, 4, "allow-never")}
		appLen := genAppLen(e, "quick")
		if appLen > 4096 && e.N.Cfg.Window > 0 && e.N.Cfg.Window < 1500 {
			e.N.Cfg.Window = 1500
		}
		plan := &worlds.ClientPlan{ID: 1, Addr: worlds.ClientAddr(1)}
		model = &worlds.ConnModel{ID: 1, Key: e.S.Seed*7 + 1, Addr: plan.Addr.String()}
		model.App = worlds.Stream(model.Key, appLen)
		plan.App = model.App
		spec = genRouteList(e, b, o, 0)
		var forced []worlds.Chunk
		if appLen >= 400 && e.T.Prob(1, 5, "flip-scenario") {
			// targeted: r0 undecided on the first segment, r1 decided 'no' on the
			// original stream, r2 undecided; then r0 matches, is non-terminal and
			// consumes k bytes after which r1 matches (a cached verdict must not
			// survive a handler that changed the stream)
			bb := 1 + e.T.Choose(6, "flip-b")
			k := -1
			for x := 1; x < 250; x++ {
				if model.App[bb-1] >= 128 && model.App[x+bb-1] < 128 {
					k = x
					break
				}
			}
			if k > 0 {
				a := bb + 1 + e.T.Choose(100, "flip-a")
				c := a + 1 + e.T.Choose(3000, "flip-c")
				spec = &RLSpec{Routes: []RSpec{
					{Sets: [][]MSpec{{{ID: b.id("m"), Need: a, Kind: VYes, Mode: e.T.Choose(4, "m-mode")}}}, Handlers: []HSpec{{Kind: "consume", Name: b.id("con"), K: k}}},
					{Sets: [][]MSpec{{{ID: b.id("m"), Need: bb, Kind: VContent, Thr: 128, Mode: e.T.Choose(4, "m-mode")}}}, Handlers: []HSpec{{Kind: "recorder", Name: b.id("rec"), MaxBuf: 4096}}},
					{Sets: [][]MSpec{{{ID: b.id("m"), Need: c, Kind: VYes, Mode: e.T.Choose(4, "m-mode")}}}, Handlers: []HSpec{{Kind: "recorder", Name: b.id("rec"), MaxBuf: 4096}}},
				}}
				first := bb + e.T.Choose(a-bb, "flip-first")
				forced = append([]worlds.Chunk{{N: first}}, e.MakeChunks(appLen-first, 20*time.Millisecond)...)
				if len(forced) > 1 && forced[1].Delay == 0 {
					forced[1].Delay = time.Millisecond
				}
				e.S.Stat("probe_flip_scenario", 1)
			}
		}
		annotate(spec, "L", "", cfg)
		routes := b.RouteList(spec, "routing")
		plan.Chunks = e.MakeChunks(appLen, 20*time.Millisecond)
		if forced != nil {
			plan.Chunks = forced
		}
		switch e.T.Weighted("client-end", 5, 2, 1, 2) {
		case 0:
			plan.End = worlds.EndHalfClose
		case 1:
			plan.End = worlds.EndClose
		case 2:
			plan.End = worlds.EndAbort
			plan.AbortAt = e.T.Range(0, appLen, "abort-at")
		case 3:
			plan.End = worlds.EndLinger
			plan.Linger = time.Duration(e.T.Pick("linger", 10, 1000, 5000)) * time.Millisecond
		}
		e.Reg.Add(model)
		tmo := time.Duration(e.T.Pick("match-timeout", 3000, 500, 100)) * time.Millisecond
		if n := len(plan.Chunks); n >= 2 && e.T.Prob(1, 6, "late-tail") {
			// the tail of the stream arrives after the matching timeout has passed: whoever handles
			// the connection by then must still get it (a deadline left over from matching would cut it)
			plan.Chunks[n-1].Delay = tmo + 200*time.Millisecond
			sample.LateTail = true
		}
		w = e.NewTCPWorld(routes, tmo)
		cl = e.StartClient(w.Ln, plan, model)
		w.Clients = append(w.Clients, cl)
		if e.T.Prob(1, 2, "second-conn") {
			// a second connection through the same provisioned configuration (per-connection
			// state must not live in route lists or handlers)
			plan2 := &worlds.ClientPlan{ID: 2, Addr: worlds.ClientAddr(2), End: worlds.EndHalfClose}
			model2 = &worlds.ConnModel{ID: 2, Key: e.S.Seed*7 + 2, Addr: plan2.Addr.String()}
			n2 := genAppLen(e, "quick")
			model2.App = worlds.Stream(model2.Key, n2)
			if e.T.Prob(1, 2, "same-head") && n2 > 0 && appLen > 0 {
				copy(model2.App, model.App[:min(16, min(n2, appLen))]) // same first bytes: same early verdicts
			}
			plan2.App = model2.App
			plan2.Chunks = e.MakeChunks(n2, 20*time.Millisecond)
			plan2.StartAt = time.Duration(e.T.Pick("conn2-start-ms", 0, 3, 400, 4000)) * time.Millisecond
			e.Reg.Add(model2)
			cl2 = e.StartClient(w.Ln, plan2, model2)
			w.Clients = append(w.Clients, cl2)
		}
		sample.Config, sample.AppLen, sample.ClientEnd = spec, appLen, plan.End
		return w.Done
	}, func() {
		if e.S.Capped {
			return
		}
		for _, m := range []*worlds.ConnModel{model, model2} {
			if m == nil {
				continue
			}
			var h []worlds.MatchEval
			for _, ev := range hist {
				if ev.Conn == m.Addr {
					h = append(h, ev)
				}
			}
			checkC02(e, cfg, m, h, sample)
			// no handler may lose the stream to a read deadline (the matching deadline is gone once
			// a route has matched or the fallback has the connection)
			for _, st := range m.Recorders {
				var ne net.Error
				if st.Err != nil && errors.As(st.Err, &ne) && ne.Timeout() && !m.Aborted {
					e.S.Fail("C02/handler-deadline", "routing", "conn %d: handler %s got a read timeout after %d bytes (from offset %d): it did not receive the stream intact", m.ID, st.Name, st.Got, st.Start)
				}
			}
			// a connection on which nothing was ever evaluated and nothing ran, although the top list
			// can be decided without a single byte
			clm := cl
			if m == model2 {
				clm = cl2
			}
			// wave 13: while nothing but matching has touched the connection, everything the server has
			// taken off the socket is in the matching buffer the matchers see at their next evaluation
			// (a prefetch that succeeds is always followed by one): bytes pulled but never shown were dropped
			if len(h) > 0 && len(m.HandlerCalls) == 0 && clm != nil && clm.End != nil {
				pulled, seen := clm.End.Peer().Snapshot().BytesRead, 0
				for _, ev := range h {
					if ev.BufLen > seen {
						seen = ev.BufLen
					}
				}
				if pulled > seen {
					e.S.Fail("C02/prefetched-unseen", "routing", "conn %d: the server read %d bytes from the client while matching, but the largest matching buffer any matcher was shown held %d: bytes that had arrived were dropped before the routes could be decided on them (no handler ran)", m.ID, pulled, seen)
				}
			}
			if len(h) == 0 && len(m.HandlerCalls) == 0 && clm != nil && clm.End != nil && !m.Aborted && clm.Plan.End != worlds.EndAbort && clm.Plan.End != worlds.EndClose {
				for i := range spec.Routes {
					v := specRoute(&spec.Routes[i], nil)
					if v == sNo {
						continue
					}
					if v == sYes {
						e.S.Fail("C02/match-ignored", "routing", "list L: route %d matches without a single byte (every earlier route is decided as not matching on the empty prefix), the client connected and stayed, but no matcher was evaluated and no handler ran", i)
					}
					break
				}
			}
		}
	})
	nontrivial := len(sample.Rounds) >= 2 || len(model.HandlerCalls) >= 2
	_ = cl
	return nontrivial, sample
}

func checkC02(e *worlds.Env, cfg *c02cfg, m *worlds.ConnModel, hist []worlds.MatchEval, sample *c02Sample) {
	sig := "routing"
	fail := func(kind, format string, a ...any) {
		e.S.Fail("C02/"+kind, sig, format, a...)
	}
	calls := m.HandlerCalls
	sample.Handlers = calls
	sample.Evals = len(hist)
	var vs strings.Builder
	lastVis := -1
	for _, ev := range hist {
		vs.WriteByte("ny?!"[ev.Verdict^0]) // 0 no,1 yes,2 more,3 err
		if ev.Visible != lastVis {
			sample.Rounds = append(sample.Rounds, ev.Visible)
			lastVis = ev.Visible
		}
	}
	sample.Verdicts = vs.String()
	if len(sample.Rounds) > 40 {
		sample.Rounds = sample.Rounds[:40]
	}
	// class for distinctness
	e.S.Tracef("class", shape(cfg), sample.Verdicts)

	// per-list sequence of route marks
	type mark struct {
		route   int
		off     int
		vis     int
		evalSeq int
		idx     int
	}
	marks := map[string][]mark{}
	fbs := map[string][]mark{}
	stopIdx := -1 // index in calls of the first terminal harness handler
	for i, hc := range calls {
		switch {
		case strings.HasPrefix(hc.Handler, "R:"):
			p := strings.LastIndex(hc.Handler, "/")
			lid := hc.Handler[2:p]
			ri, _ := strconv.Atoi(hc.Handler[p+1:])
			marks[lid] = append(marks[lid], mark{ri, hc.Offset, hc.Visible, hc.EvalSeq, i})
		case strings.HasPrefix(hc.Handler, "F:"):
			lid := hc.Handler[2:]
			fbs[lid] = append(fbs[lid], mark{-1, hc.Offset, hc.Visible, hc.EvalSeq, i})
		case strings.HasPrefix(hc.Handler, "rec"):
			if stopIdx < 0 {
				stopIdx = i
			}
		}
	}
	// after a terminal handler nothing else runs
	if stopIdx >= 0 && stopIdx != len(calls)-1 {
		fail("ran-after-terminal", "handler %s ran after terminal handler %s", calls[stopIdx+1].Handler, calls[stopIdx].Handler)
	}
	vis := func(off, n int) []byte {
		if off > len(m.App) {
			off = len(m.App)
		}
		end := off + n
		if end > len(m.App) {
			end = len(m.App)
		}
		return m.App[off:end]
	}
	for _, lid := range cfg.order {
		li := cfg.lists[lid]
		ms := marks[lid]
		prev := -1
		for _, mk := range ms {
			// (2) strictly increasing, no repetition
			if mk.route <= prev {
				fail("order", "list %s: route %d ran after route %d", lid, mk.route, prev)
			}
			p := vis(mk.off, mk.vis)
			// (1) the route that ran is a match on the bytes then visible
			if v := specRoute(&li.spec.Routes[mk.route], p); v != sYes {
				fail("ran-unmatched", "list %s: handlers of route %d ran but its matcher sets evaluate to %s on the %d visible bytes at offset %d",
					lid, mk.route, vname(v), mk.vis, mk.off)
			}
			// (3)/(4) no earlier remaining route is a match (or an error) on those bytes
			for i := prev + 1; i < mk.route; i++ {
				switch v := specRoute(&li.spec.Routes[i], p); v {
				case sYes:
					fail("passed-over", "list %s: route %d ran although earlier route %d matches the %d visible bytes at offset %d",
						lid, mk.route, i, mk.vis, mk.off)
				case sErr:
					fail("error-ignored", "list %s: route %d ran although earlier route %d's matcher fails with an error on the %d visible bytes",
						lid, mk.route, i, mk.vis)
				}
			}
			prev = mk.route
		}
		// fallback: only sub-lists have an observable fallback mark
		fb := fbs[lid]
		if len(fb) > 1 {
			fail("fallback-twice", "list %s: fallback handler ran %d times", lid, len(fb))
		}
		if len(fb) >= 1 {
			f := fb[0]
			p := vis(f.off, f.vis)
			for i := prev + 1; i < len(li.spec.Routes); i++ {
				if v := specRoute(&li.spec.Routes[i], p); v != sNo {
					fail("fallback-early", "list %s: fallback ran although remaining route %d evaluates to %s on the %d visible bytes at offset %d",
						lid, i, vname(v), f.vis, f.off)
				}
			}
			for _, mk := range ms {
				if mk.idx > f.idx {
					fail("order", "list %s: route %d ran after the fallback", lid, mk.route)
				}
			}
		}
	}
	// End-of-connection clauses, for the list in which matching was going on
	// when the connection ended (the owner of the last leaf evaluation), and
	// only when no harness handler ended the chain.
	if stopIdx < 0 && !m.Stopped && len(hist) > 0 {
		last := hist[len(hist)-1]
		lid := cfg.matcherL[last.Matcher]
		li := cfg.lists[lid]
		// no handler may have started after that evaluation
		handlerAfter := false
		for _, c := range calls {
			if c.Visible >= 0 && c.EvalSeq > last.Seq {
				handlerAfter = true
			}
		}
		if li != nil && !handlerAfter {
			prev := -1
			for _, mk := range marks[lid] {
				prev = mk.route
			}
			p := vis(m.Consumed, last.Visible)
			allNo := true
			for i := prev + 1; i < len(li.spec.Routes); i++ {
				v := specRoute(&li.spec.Routes[i], p)
				if v == sNo {
					continue
				}
				allNo = false
				if v == sYes {
					// (4) every earlier remaining route is decided as not matching, this one matches
					fail("match-ignored", "list %s: route %d matches the %d bytes visible in the last round (offset %d) and every earlier remaining route is decided as not matching, but its handlers never ran",
						lid, i, last.Visible, m.Consumed)
				}
				break
			}
			if allNo && lid != "L" && len(fbs[lid]) == 0 {
				fail("fallback-lost", "list %s: every remaining route is decided as not matching on the %d visible bytes at offset %d and no terminal handler ran, but the fallback never ran",
					lid, last.Visible, m.Consumed)
			}
		}
	}
	// (5) every leaf evaluation sees the stream from a consumed offset reached so far
	cands := map[int]bool{0: true, m.Consumed: true}
	for _, c := range calls {
		cands[c.Offset] = true
	}
	for _, ev := range hist {
		if !ev.HasByte {
			continue
		}
		found := false
		for c := range cands {
			if c < len(m.App) && m.App[c] == ev.First {
				found = true
				break
			}
		}
		if !found {
			fail("stale-view", "matcher %s (evaluation %d) saw first byte %02x which is not the stream byte at any consumed offset reached by the handlers",
				ev.Matcher, ev.Seq, ev.First)
			break
		}
	}
}

func vname(v int) string { return [...]string{"no", "yes", "need-more", "error"}[v] }

func shape(cfg *c02cfg) string {
	var parts []string
	for _, lid := range cfg.order {
		li := cfg.lists[lid]
		var rs []string
		for i := range li.spec.Routes {
			r := &li.spec.Routes[i]
			var ss []string
			for _, set := range r.Sets {
				var ms []string
				for _, m := range set {
					x := fmt.Sprintf("%d", m.Kind)
					if m.Not {
						x = "!" + x
					}
					ms = append(ms, x)
				}
				ss = append(ss, strings.Join(ms, "&"))
			}
			last := ""
			if n := len(r.Handlers); n > 0 {
				last = r.Handlers[n-1].Kind
			}
			rs = append(rs, strings.Join(ss, "|")+">"+last)
		}
		parts = append(parts, lid+"["+strings.Join(rs, ";")+"]")
	}
	sort.Strings(parts)
	return strings.Join(parts, " ")
}

var _ = simnet.Up
