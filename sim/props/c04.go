package props

import (
	"bytes"
	"fmt"
	"testing"
	"time"

	"github.com/mholt/caddy-l4/layer4"
	"github.com/mholt/caddy-l4/modules/l4socks"
	"github.com/mholt/caddy-l4/modules/l4tls"

	"verif/sim/gen"
	"verif/sim/simnet"
	"verif/sim/worlds"
)

type c04Sample struct {
	Target    string `json:"target"`
	Transport string `json:"transport"`
	Input     string `json:"input_kind"`
	Len       int    `json:"input_len"`
	Hex       string `json:"first_bytes"`
	Delivery  string `json:"delivery"`
	Evals     int    `json:"matcher_evaluations"`
	MaxAlloc  uint64 `json:"max_bytes_allocated_per_evaluation"`
	Verdicts  string `json:"verdicts"`
}

func init() {
	register(&Prop{
		ID:   "C04",
		Rule: "each run is one adversarial client: it picks a target (every shipped matcher in default and filtered configurations, or a parsing handler: proxy_protocol, socks5, tls), TCP or UDP, and an opener - uniformly random bytes, a well-formed first message from per-protocol generators, a structure-aware mutation that keeps or breaks length-field consistency (0, 1, len-1, len, len+1, max, truncated tails, missing terminators, boundary opcodes), a generic mutation, short line-structured input, or a matching buffer full of minimal lines behind a valid first line (the worst case of line and header parsers) - delivered under arbitrary segmentation and closed, reset or stalled at an arbitrary byte. Oracle: the worker process survives (a panic in a connection goroutine is a violation with the seed as replay) and no single matcher evaluation allocates more than 64 x MaxMatchingBytes (runtime.MemStats.TotalAlloc delta; one simulated goroutine runs at a time). Non-trivial: the target was evaluated on a non-empty prefix; distinct: event-log hashes.",
		Run:  runC04,
	})
}

// Allocation limit per matcher evaluation. The standard library alone allocates about
// 28 bytes per input byte when net/http parses a full matching buffer of minimal header
// lines (measured: 230 KB for 8 KiB), so the line-oriented matchers legitimately reach
// ~35 x MaxMatchingBytes; 64 x leaves headroom for that and stays far below anything a
// remote length field can request (a 24-bit length is already 2048 x).
const c04AllocLimit = 64 * layer4.MaxMatchingBytes

func runC04(t *testing.T, e *worlds.Env, tier string) (bool, any) {
	sample := &c04Sample{}
	var w *worlds.TCPWorld
	var uw *worlds.UDPWorld
	var pm *PurityMatcher
	clientDone := false
	e.Run(t, func() func() bool {
		tp := e.T
		yieldKnob(e)
		e.N.Cfg = netKnobs(e)
		e.N.Cfg.Window = 0
		protos := gen.All()
		var cands []*gen.Proto
		for _, p := range protos {
			// (quic included: quic-go's listener runs inside the bubble on fake timers; its goroutines are
			// not parked by the scheduler but run to quiescence between two of its steps - event hashes
			// were identical over 3000 seeds x 6 processes at GOMAXPROCS 1/4/16)
			if !p.Slow || p.Name == "quic" {
				cands = append(cands, p)
			}
		}
		udp := tp.Prob(1, 3, "udp")
		sample.Transport = "tcp"
		if udp {
			sample.Transport = "udp"
		}
		drain := layer4.NextHandlerFunc(func(cx *layer4.Connection, _ layer4.Handler) error {
			buf := make([]byte, 4096)
			for {
				if _, err := cx.Read(buf); err != nil {
					return nil
				}
			}
		})
		var routes layer4.RouteList
		var msg []byte
		handlerTarget := !udp && tp.Prob(1, 6, "handler-target")
		p := cands[tp.Choose(len(cands), "proto")]
		if handlerTarget {
			b := &Builder{E: e, Tag: "C04"}
			var h layer4.NextHandler
			switch tp.Choose(3, "handler") {
			case 0:
				hs := HSpec{Kind: "pp", Name: "pp"}
				h = b.Handler(&hs, "h")
				p = gen.ByName("proxy_protocol")
				sample.Target = "handler proxy_protocol"
			case 1:
				sh := &l4socks.Socks5Handler{}
				if tp.Prob(1, 2, "socks-creds") {
					sh.Credentials = map[string]string{"alice": "wonder"}
				}
				if err := sh.Provision(e.Ctx); err != nil {
					panic(err)
				}
				h = sh
				p = gen.ByName("socks5")
				sample.Target = "handler socks5"
			default:
				hs := HSpec{Kind: "tls", Name: "tls"}
				h = b.Handler(&hs, "h")
				p = gen.ByName("tls")
				sample.Target = "handler tls"
			}
			routes = layer4.RouteList{layer4.VerifNewRoute(nil, []layer4.NextHandler{h, drain})}
			if sample.Target == "handler proxy_protocol" && tp.Prob(1, 2, "ip-behind-pp") {
				// the usual set-up: accept the header, then filter by the address it declares - the
				// shipped ip matchers evaluate whatever addresses the header left on the connection
				rip := &layer4.MatchRemoteIP{Ranges: []string{"192.0.2.0/24", "2001:db8::/32"}}
				lip := &layer4.MatchLocalIP{Ranges: []string{"198.51.100.0/24"}}
				if rip.Provision(e.Ctx) == nil && lip.Provision(e.Ctx) == nil {
					routes = layer4.RouteList{
						layer4.VerifNewRoute(nil, []layer4.NextHandler{h}),
						layer4.VerifNewRoute([]layer4.MatcherSet{{rip}, {lip}}, []layer4.NextHandler{drain}),
						layer4.VerifNewRoute([]layer4.MatcherSet{{&layer4.MatchNot{MatcherSets: []layer4.MatcherSet{{rip}}}}}, []layer4.NextHandler{drain}),
					}
					sample.Target += " + remote_ip/local_ip"
				}
			}
		} else {
			ms, err := p.Matchers(e.Ctx)
			if err != nil || len(ms) == 0 {
				panic(fmt.Sprint("gen matchers: ", err))
			}
			for _, nm := range ms {
				if tm, ok := nm.M.(*l4tls.MatchTLS); ok {
					tm.VerifSetLogger(e.Log)
				}
			}
			nm := ms[0]
			if tp.Prob(1, 2, "filtered") {
				nm = ms[tp.Choose(len(ms), "config")]
			}
			sample.Target = "matcher " + nm.Name
			e.S.Stats["target_"+p.Name]++
			pm = &PurityMatcher{E: e, Inner: nm.M, Name: nm.Name, Tag: "C04", MeasureAlloc: true, AllocLimit: c04AllocLimit}
			never := &worlds.SpecMatcher{E: e, ID: "never", Never: true}
			routes = layer4.RouteList{
				layer4.VerifNewRoute([]layer4.MatcherSet{{pm}}, []layer4.NextHandler{drain}),
				layer4.VerifNewRoute([]layer4.MatcherSet{{never}}, []layer4.NextHandler{drain}),
			}
		}
		switch tp.Weighted("input", 2, 2, 5, 3, 2, 1) {
		case 5:
			// a matching buffer full of minimal lines behind (part of) a valid opener:
			// the amplification worst case of line and header parsers
			v := p.Valid(tp, !udp)
			if i := bytes.IndexByte(v, '\n'); i >= 0 {
				v = v[:i+1]
			} else if len(v) > 32 {
				v = v[:tp.Choose(33, "dense-keep")]
			}
			msg = append(msg, v...)
			total := tp.Pick("dense-total", layer4.MaxMatchingBytes-3, 2000, layer4.MaxMatchingBytes+500, 600)
			eol := tp.Pick2("dense-eol", "\n", "\r\n")
			form := tp.Choose(4, "dense-form")
			for i := 0; len(msg) < total; i++ {
				a, b := byte('a'+i%26), byte('a'+(i/26)%26)
				switch form {
				case 0:
					msg = append(msg, a, b, ':')
				case 1:
					msg = append(msg, a, ':', b)
				case 2:
					msg = append(msg, a, ':')
				default:
					msg = append(msg, a, b, ':', ' ', 'x')
				}
				msg = append(msg, eol...)
			}
			if tp.Prob(3, 4, "dense-end") {
				msg = append(msg, eol...)
			}
			sample.Input = "dense-lines"
		case 4:
			// short line-structured input: k filler bytes, then CR LF / LF at every small
			// offset (boundary values of "find the first line end" arithmetic), optionally
			// a keyword of the target protocol spliced in
			k := tp.Choose(24, "line-k")
			fill := byte(tp.Pick("line-fill", 'A', ' ', '/', 0))
			for i := 0; i < k; i++ {
				msg = append(msg, fill)
			}
			if v := p.Valid(tp, !udp); tp.Prob(1, 2, "line-kw") && len(v) > 0 {
				n := tp.Choose(min(len(v), 12)+1, "line-kw-n")
				at := tp.Choose(len(msg)+1, "line-kw-at")
				msg = append(msg[:at:at], append(append([]byte(nil), v[:n]...), msg[at:]...)...)
				if len(msg) > k && k > 0 {
					msg = msg[:k]
				}
			}
			switch tp.Choose(4, "line-end") {
			case 0:
				msg = append(msg, '\r', '\n')
			case 1:
				msg = append(msg, '\n')
			case 2:
				msg = append(msg, '\r', '\n', '\r', '\n')
			default:
				msg = append(msg, '\r')
			}
			sample.Input = "short-lines"
		case 0:
			msg = gen.RandomBytes(tp, 3000)
			sample.Input = "random"
		case 1:
			msg = p.Valid(tp, !udp)
			sample.Input = "valid"
		case 2:
			msg = p.Mutate(tp, p.Valid(tp, !udp), !udp)
			sample.Input = "mutated"
		default:
			msg = gen.GenericMutate(tp, p.Valid(tp, !udp))
			sample.Input = "generic-mutated"
		}
		if tp.Prob(1, 4, "trailing") {
			msg = append(append([]byte(nil), msg...), gen.RandomBytes(tp, 300)...)
		}
		if len(msg) > 3*layer4.MaxMatchingBytes {
			msg = msg[:3*layer4.MaxMatchingBytes]
		}
		sample.Len, sample.Hex = len(msg), fmt.Sprintf("% x", head(msg, 32))
		timeout := time.Duration(tp.Pick("timeout-ms", 500, 100, 3000)) * time.Millisecond
		if udp {
			uw = e.NewUDPWorld(routes, timeout)
			addr := worlds.UDPClientAddr(1)
			plan := &worlds.UDPClientPlan{ID: 1, Addr: addr}
			// one datagram, or the input split over a few datagrams
			if tp.Prob(1, 4, "split-dgrams") && len(msg) > 1 {
				k := 1 + tp.Choose(len(msg)-1, "dsplit")
				plan.Sends = []worlds.UDPSend{{Data: msg[:k]}, {Data: msg[k:], Delay: time.Duration(tp.Choose(20, "d-delay")) * time.Millisecond}}
				sample.Delivery = fmt.Sprintf("two datagrams %d+%d", k, len(msg)-k)
			} else {
				d := msg
				if len(d) > 9000 {
					d = d[:9000]
				}
				plan.Sends = []worlds.UDPSend{{Data: d}}
				sample.Delivery = "one datagram"
			}
			uw.StartClient(plan)
			clientDone = true
			return uw.Done
		}
		w = e.NewTCPWorld(routes, timeout)
		chunks := e.MakeChunks(len(msg), 10*time.Millisecond)
		endMode := tp.Weighted("end", 4, 2, 2, 2)
		cutAt := len(msg)
		if endMode != 0 && len(msg) > 0 {
			cutAt = tp.Choose(len(msg)+1, "cut-at")
		}
		sample.Delivery = fmt.Sprintf("%d chunks, end=%d at %d", len(chunks), endMode, cutAt)
		e.S.Go("c1", func() {
			defer func() {
				lk()
				clientDone = true
				ulk()
			}()
			end, err := e.N.Connect(w.Ln, "c1", worlds.ClientAddr(1))
			if err != nil {
				return
			}
			conn := end.Conn()
			e.S.Go("c1.r", func() {
				buf := make([]byte, 2048)
				for {
					if _, err := conn.Read(buf); err != nil {
						return
					}
				}
			})
			off := 0
			for _, ch := range chunks {
				if ch.Delay > 0 {
					time.Sleep(ch.Delay)
				}
				n := ch.N
				if off+n > cutAt {
					n = cutAt - off
				}
				if n > 0 {
					if _, err := conn.Write(msg[off : off+n]); err != nil {
						break
					}
					off += n
				}
				if off >= cutAt {
					break
				}
			}
			switch endMode {
			case 0, 1: // graceful half close (after everything / at the cut)
				_ = conn.(interface{ CloseWrite() error }).CloseWrite()
				time.Sleep(4 * time.Second)
				_ = conn.Close()
			case 2: // reset
				end.Abort()
			default: // stall, then close
				time.Sleep(time.Duration(tp.Pick("stall-ms", 50, 700, 4000)) * time.Millisecond)
				_ = conn.Close()
			}
		})
		return func() bool {
			lk()
			d := clientDone
			ulk()
			return d && w.Done() && len(liveWith(e, "c1")) == 0
		}
	}, func() {
		if pm != nil {
			sample.Evals = len(pm.Evals)
			sample.MaxAlloc = pm.AllocMax
			if int(pm.AllocMax) > e.S.Stats["max_alloc_bytes_per_evaluation"] {
				e.S.Stats["max_alloc_bytes_per_evaluation"] = int(pm.AllocMax)
			}
			for _, ev := range pm.Evals {
				sample.Verdicts += string("ny?!"[ev.Verdict])
				if ev.Visible > 0 {
					e.S.Stats["probe_evaluated_nonempty_prefix"]++
				}
			}
			if len(sample.Verdicts) > 60 {
				sample.Verdicts = sample.Verdicts[:60]
			}
		}
	})
	nontrivial := e.S.Stats["probe_evaluated_nonempty_prefix"] > 0 || (pm == nil && sample.Len > 0)
	_ = simnet.Up
	return nontrivial, sample
}
