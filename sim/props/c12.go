package props

import (
	"io"
	"github.com/caddyserver/caddy/v2"
	"bytes"
	"fmt"
	"net"
	"strconv"
	"strings"
	"testing"
	"time"

	"github.com/mholt/caddy-l4/layer4"
	"github.com/mholt/caddy-l4/modules/l4proxy"
	"github.com/mholt/caddy-l4/modules/l4proxyprotocol"

	"verif/sim/simnet"
	"verif/sim/worlds"
)

// ParsePP is the harness's independent PROXY protocol decoder (v1 and v2).
// It returns the header length, version, whether addresses are declared, and them.
func ParsePP(b []byte) (n int, ver int, hasAddr bool, src, dst *net.TCPAddr, err error) {
	if len(b) >= 6 && string(b[:6]) == "PROXY " {
		i := bytes.Index(b, []byte("\r\n"))
		if i < 0 || i > 107 {
			return 0, 1, false, nil, nil, fmt.Errorf("v1 header not terminated within 107 bytes")
		}
		f := strings.Split(string(b[:i]), " ")
		if len(f) >= 2 && f[1] == "UNKNOWN" {
			return i + 2, 1, false, nil, nil, nil
		}
		if len(f) != 6 || (f[1] != "TCP4" && f[1] != "TCP6") {
			return 0, 1, false, nil, nil, fmt.Errorf("malformed v1 header %q", string(b[:i]))
		}
		sip, dip := net.ParseIP(f[2]), net.ParseIP(f[3])
		sp, e1 := strconv.Atoi(f[4])
		dp, e2 := strconv.Atoi(f[5])
		if sip == nil || dip == nil || e1 != nil || e2 != nil {
			return 0, 1, false, nil, nil, fmt.Errorf("malformed v1 header %q", string(b[:i]))
		}
		if (f[1] == "TCP4") != (sip.To4() != nil) {
			return 0, 1, false, nil, nil, fmt.Errorf("v1 family %s does not fit address %s", f[1], f[2])
		}
		return i + 2, 1, true, &net.TCPAddr{IP: sip, Port: sp}, &net.TCPAddr{IP: dip, Port: dp}, nil
	}
	if len(b) >= 16 && bytes.Equal(b[:12], ppV2Sig) {
		if b[12]>>4 != 2 {
			return 0, 2, false, nil, nil, fmt.Errorf("v2 version nibble %x", b[12]>>4)
		}
		cmd := b[12] & 0xf
		l := int(b[14])<<8 | int(b[15])
		if len(b) < 16+l {
			return 0, 2, false, nil, nil, fmt.Errorf("v2 header truncated")
		}
		body := b[16 : 16+l]
		if cmd == 0 {
			return 16 + l, 2, false, nil, nil, nil
		}
		switch b[13] {
		case 0x11, 0x12:
			if l < 12 {
				return 0, 2, false, nil, nil, fmt.Errorf("v2 inet body too short")
			}
			return 16 + l, 2, true, &net.TCPAddr{IP: net.IP(body[0:4]), Port: int(body[8])<<8 | int(body[9])},
				&net.TCPAddr{IP: net.IP(body[4:8]), Port: int(body[10])<<8 | int(body[11])}, nil
		case 0x21, 0x22:
			if l < 36 {
				return 0, 2, false, nil, nil, fmt.Errorf("v2 inet6 body too short")
			}
			return 16 + l, 2, true, &net.TCPAddr{IP: net.IP(body[0:16]), Port: int(body[32])<<8 | int(body[33])},
				&net.TCPAddr{IP: net.IP(body[16:32]), Port: int(body[34])<<8 | int(body[35])}, nil
		case 0x00:
			return 16 + l, 2, false, nil, nil, nil
		}
		return 0, 2, false, nil, nil, fmt.Errorf("v2 family/protocol byte %02x", b[13])
	}
	return 0, 0, false, nil, nil, fmt.Errorf("no PROXY header: % x", head(b, 16))
}

type c12Sample struct {
	Mode      string   `json:"mode"`
	Header    string   `json:"client_header"`
	Allow     []string `json:"allow"`
	Allowed   bool     `json:"peer_allowed"`
	Matcher   string   `json:"matcher_before_handler"`
	Send      string   `json:"proxy_sends"`
	AppLen    int      `json:"payload_len"`
	ClientEnd string   `json:"client_end"`
	Seen      []worlds.AddrSeen `json:"addresses_seen"`
	UpHeader  string   `json:"upstream_received_header"`
	Net       simnet.Cfg `json:"net"`
	Layout    string   `json:"layout,omitempty"`
	SecondConn bool    `json:"second_overlapping_client,omitempty"`
}

func init() {
	register(&Prop{
		ID:   "C12",
		Rule: "each run draws receiver-only, sender-only or composition (client -> proxy_protocol handler -> proxy sending v1|v2 -> second simulated layer4 server with the receiver chain). Client headers come from an independent encoder (v1 TCP4/TCP6/UNKNOWN, v2 PROXY/LOCAL, INET/INET6/UNSPEC, TLVs), split anywhere / coalesced with the payload / preceded by matcher rounds that buffer >4KiB; allow lists containing or excluding the peer; close or stall mid-header. Upstreams decode what they receive with an independent decoder. Oracle: exactly the header bytes removed, declared addresses visible to handlers, ip matchers and placeholders, untouched pass-through for peers outside the allow list, one well-formed header of the configured version with the effective addresses immediately followed by the stream. Non-trivial: header split across reads or sent+received in one run; distinct: event-log hashes.",
		Run:  runC12,
	})
}

func runC12(t *testing.T, e *worlds.Env, tier string) (bool, any) {
	sample := &c12Sample{}
	var w *worlds.TCPWorld
	var cl *worlds.Client
	var model *worlds.ConnModel
	var seen, seenB []worlds.AddrSeen
	var ups *worlds.ProxyUps
	var hdr *PPHeader
	var hdrBytes []byte
	mode := 0 // 0 receiver, 1 sender, 2 composition
	allowed := true
	sendVer := 0
	var payload []byte
	var upRaw *worlds.UpConnRec
	var modelB *worlds.ConnModel
	aborted := false
	var silentFor time.Duration
	var ppTimeout time.Duration
	sender2 := false
	var tapB []byte
	var ipPost *layer4.MatchRemoteIP
	splitAt := 0
	var hdr2 *PPHeader
	var plan2 *worlds.ClientPlan
	var model2 *worlds.ConnModel
	failover := false
	consumeK := 0
	e.Run(t, func() func() bool {
		tp := e.T
		e.N.Cfg = netKnobs(e)
		if e.N.Cfg.Window > 0 && e.N.Cfg.Window < 1500 {
			e.N.Cfg.Window = 1500
		}
		yieldKnob(e)
		mode = tp.Weighted("mode", 4, 3, 3)
		sample.Mode = []string{"receiver", "sender", "composition"}[mode]
		appLen := tp.LogRange(0, 20000, "app-len")
		plan := &worlds.ClientPlan{ID: 1, Addr: worlds.ClientAddr(1)}
		model = &worlds.ConnModel{ID: 1, Key: e.S.Seed*7 + 1, Addr: plan.Addr.String()}
		payload = worlds.Stream(model.Key, appLen)
		b := &Builder{E: e, Tag: "C12"}
		var hs []layer4.NextHandler
		var sets []layer4.MatcherSet
		sig := sample.Mode
		if mode != 1 {
			// the client speaks PROXY protocol
			hdr = &PPHeader{Version: 1 + tp.Choose(2, "pp-ver"), Src: simnet.TCPAddr("192.0.2.77", 4242), Dst: simnet.TCPAddr("198.51.100.1", 8443)}
			switch tp.Weighted("pp-kind", 5, 2, 1, 1, 1, 1) {
			case 5:
				hdr.Version, hdr.UDP = 2, true // a datagram client behind the sender of this header
			case 1:
				hdr.Src, hdr.Dst = simnet.TCPAddr("2001:db8::77", 4242), simnet.TCPAddr("2001:db8::1", 8443)
			case 2:
				hdr.Unknown = true
			case 3:
				hdr.Version, hdr.Local = 2, true
			case 4:
				hdr.Version = 2
				tl := tp.Choose(40, "tlv-len")
				hdr.TLVs = append([]byte{0x04, byte(tl >> 8), byte(tl)}, make([]byte, tl)...)
			}
			hdrBytes = hdr.Encode()
			sample.Header = fmt.Sprintf("v%d local=%v unknown=%v udp=%v src=%v tlv=%d (%d bytes)", hdr.Version, hdr.Local, hdr.Unknown, hdr.UDP, hdr.Src, len(hdr.TLVs), len(hdrBytes))
			var allow []string
			switch tp.Weighted("allow", 3, 2, 2, 2) {
			case 3:
				// sibling ranges of equal prefix length, the peer in the second one
				allow = [][]string{{"10.8.0.0/16", "10.9.0.0/16"}, {"10.7.0.0/16", "10.8.0.0/16", "10.9.0.0/16", "192.168.0.0/16"}, {"10.9.1.0/24", "10.9.0.0/24"}}[tp.Choose(3, "siblings")]
			case 1:
				allow = []string{"10.9.0.0/16", "127.0.0.1/32"}
			case 2:
				allow = []string{"10.77.0.0/16", "192.0.2.0/24"}
				allowed = false
			}
			sample.Allow, sample.Allowed = allow, allowed
			switch tp.Weighted("pre-match", 3, 2, 2, 2) {
			case 3:
				// the load-balancer layout: the route with the handler is entered by the peer's real
				// address (shipped remote_ip matcher), the next route by the address the header declares
				if mode == 0 && allowed && !hdr.Unknown && !hdr.Local && len(hdr.TLVs) == 0 { // (the library rejects v2 headers with TLVs)
					pre := &layer4.MatchRemoteIP{Ranges: []string{worlds.ClientAddr(1).IP.String()}}
					post := &layer4.MatchRemoteIP{Ranges: []string{hdr.Src.IP.String()}}
					if pre.Provision(e.Ctx) == nil && post.Provision(e.Ctx) == nil {
						sets = []layer4.MatcherSet{{pre}}
						ipPost = post
						sample.Matcher = "remote_ip before and after"
					}
				}
			case 0:
				sets = []layer4.MatcherSet{{&l4proxyprotocol.MatchProxyProtocol{}}}
				sample.Matcher = "proxy_protocol"
			case 2:
				need := tp.Pick("pre-need", 1, 16, 108, 2049, 4097, 6000)
				if need > len(hdrBytes)+appLen {
					need = len(hdrBytes) + appLen
				}
				if need > 0 {
					sets = []layer4.MatcherSet{{&worlds.SpecMatcher{E: e, ID: "mpre", Need: need, Mode: tp.Choose(4, "mode"), Yes: func([]byte) bool { return true }}}}
				}
				sample.Matcher = fmt.Sprintf("spec need=%d", need)
			}
			if sample.Matcher == "proxy_protocol" {
				// the route is entered through the shipped matcher: a complete well-formed
				// header must be recognised however it was split
				m0 := HSpec{Kind: "vmark", Name: "M0"}
				hs = append(hs, b.Handler(&m0, sig))
			}
			ph := HSpec{Kind: "pp", Name: "pp", Allow: allow}
			if mode == 0 && tp.Prob(1, 3, "pp-timeout") {
				// the handler's timeout option bounds the wait for the header, nothing else
				ppTimeout = time.Duration(tp.Pick("pp-timeout-ms", 1000, 250, 5000)) * time.Millisecond
				ph.PPTimeout = ppTimeout
				sample.Header += fmt.Sprintf(" handler-timeout=%v", ppTimeout)
			}
			hs = append(hs, b.Handler(&ph, sig))
			model.App = append(append([]byte(nil), hdrBytes...), payload...)
			if allowed {
				model.Pre = hdrBytes
				pm := HSpec{Kind: "ppmark", Name: "ppdone"}
				hs = append(hs, b.Handler(&pm, sig))
				if !hdr.Unknown && !hdr.Local {
					e.Reg.Alias(hdr.Src.String(), model)
				} else {
					e.Reg.Alias(":0", model) // the library reports ":0" for v1 UNKNOWN
				}
			}
			splitAt = len(hs)
			hs = append(hs, &worlds.AddrRec{E: e, Name: "addr", Seen: &seen})
			// a second client with a header of its own, overlapping with the first (per-connection
			// state of the handler kept anywhere shared shows as the other client's addresses/bytes)
			if mode == 0 && allowed && !hdr.Unknown && !hdr.Local && tp.Prob(1, 3, "second-conn") {
				h2 := *hdr
				if h2.Src.IP.To4() != nil {
					h2.Src = simnet.TCPAddr("192.0.2.78", 4343)
				} else {
					h2.Src = simnet.TCPAddr("2001:db8::78", 4343)
				}
				hdr2 = &h2
				hb := hdr2.Encode()
				plan2 = &worlds.ClientPlan{ID: 2, Addr: worlds.ClientAddr(2), End: worlds.EndHalfClose}
				model2 = &worlds.ConnModel{ID: 2, Key: e.S.Seed*7 + 2, Addr: plan2.Addr.String()}
				p2 := worlds.Stream(model2.Key, 1+tp.LogRange(0, 6000, "app-len-2"))
				model2.App = append(append([]byte(nil), hb...), p2...)
				model2.Pre = hb
				plan2.App = model2.App
				plan2.StartAt = time.Duration(tp.Choose(30, "start2-ms")) * time.Millisecond
				e.Reg.Alias(hdr2.Src.String(), model2)
			}
		} else {
			model.App = payload
		}
		plan.App = model.App
		if mode == 0 {
			if tp.Prob(1, 2, "post-match") {
				// a subroute with a matcher over the payload: matching after the handler
				need := tp.Pick("post-need", 1, 7, 2049)
				if need > appLen {
					need = appLen
				}
				sub := &RLSpec{Routes: []RSpec{{Sets: [][]MSpec{{{ID: "mpost", Need: need, Kind: VYes, Mode: tp.Choose(4, "mode")}}},
					Handlers: []HSpec{{Kind: "recorder", Name: "prec", MaxBuf: tp.Pick("rec-maxbuf", 4096, 1, 300)}}}}}
				sh := HSpec{Kind: "subroute", Name: "sub", Sub: sub}
				hs = append(hs, b.Handler(&sh, sig))
			} else {
				rh := HSpec{Kind: "recorder", Name: "prec", MaxBuf: tp.Pick("rec-maxbuf", 4096, 1, 300)}
				hs = append(hs, b.Handler(&rh, sig))
			}
		} else {
			// proxy sending a PROXY header
			sendVer = 1 + tp.Choose(2, "send-ver")
			sample.Send = "v" + strconv.Itoa(sendVer)
			ups = e.NewProxyUps()
			ups.Add("tcp", "10.1.0.1:80", tp.Pick("dial-lat-ms", 0, 0, 5))
			dialsTo := []string{"tcp/10.1.0.1:80"}
			if mode == 1 && tp.Prob(1, 3, "two-peers") {
				ups.Add("tcp", "10.1.0.2:80", 0)
				dialsTo = append(dialsTo, "tcp/10.1.0.2:80")
			}
			// fail-over: an upstream in front that resets every connection right after accepting it (the
			// header write to it fails or is lost); passive health takes it out and the retry reaches the
			// healthy upstream, which must still get exactly one header
			failover = mode == 1 && tp.Prob(1, 4, "failover")
			if failover {
				ups.Add("tcp", "10.1.0.9:80", 0)
				sample.Send += " failover"
			}
			if mode == 1 {
				ups.ScriptFor = func(addr string, _ int) *worlds.UpScript {
					return &worlds.UpScript{Mode: worlds.UpSink, AbortAt: -1, AbortOnAccept: addr == "10.1.0.9:80"}
				}
			} else {
				// composition: the upstream is a second layer4 server with the receiver chain
				modelB = &worlds.ConnModel{ID: 2, Key: model.Key, Addr: "B"}
				bB := &Builder{E: e, Tag: "C12"}
				phB := HSpec{Kind: "pp", Name: "ppB"}
				rB := &worlds.Recorder{E: e, Name: "precB", Tag: "C12", Sig: sig, MaxBuf: 2048}
				routesB := layer4.RouteList{layer4.VerifNewRoute(nil, []layer4.NextHandler{bB.Handler(&phB, sig),
					&worlds.AddrRec{E: e, Name: "addrB", Seen: &seenB},
					layer4.NextHandlerFunc(func(cx *layer4.Connection, _ layer4.Handler) error {
						rB.Record(cx, modelB, true)
						return nil
					})})}
				srvB := layer4.VerifNewServer(routesB, 0, e.Log)
				e.N.AddUpstream("tcp", "10.1.0.1:80", func(c net.Conn, _ *simnet.End, _ int) {
					srvB.VerifHandle(&tapConn{Conn: c, buf: &tapB})
				})
			}
			if tp.Prob(1, 4, "earlier-handler") {
				// history: another proxy handler for the same upstream addresses, configured for the other
				// header version (or none), was provisioned before - still live, or already cleaned up as
				// after a reload. Peers are shared by address; the header version is the handler's.
				other := map[int]string{1: "v2", 2: "v1"}[sendVer]
				if tp.Prob(1, 3, "earlier-none") {
					other = ""
				}
				hOld := &l4proxy.Handler{Upstreams: l4proxy.UpstreamPool{&l4proxy.Upstream{Dial: append([]string(nil), dialsTo...)}}, ProxyProtocol: other}
				if err := hOld.Provision(e.Ctx); err != nil {
					panic(err)
				}
				hOld.VerifSetLogger(e.Log)
				if tp.Prob(1, 2, "earlier-cleaned-up") {
					_ = hOld.Cleanup()
				} else {
					e.S.OnCleanup(func() { _ = hOld.Cleanup() })
				}
				sample.Send += " (earlier handler: " + other + ")"
			}
			h := &l4proxy.Handler{Upstreams: l4proxy.UpstreamPool{&l4proxy.Upstream{Dial: dialsTo}}, ProxyProtocol: "v" + strconv.Itoa(sendVer)}
			if failover {
				h.Upstreams = append(l4proxy.UpstreamPool{&l4proxy.Upstream{Dial: []string{"tcp/10.1.0.9:80"}}}, h.Upstreams...)
				h.LoadBalancing = &l4proxy.LoadBalancing{SelectionPolicy: &l4proxy.FirstSelection{}, TryDuration: caddy.Duration(2 * time.Second), TryInterval: caddy.Duration(10 * time.Millisecond)}
				h.HealthChecks = &l4proxy.HealthChecks{Passive: &l4proxy.PassiveHealthChecks{FailDuration: caddy.Duration(10 * time.Second), MaxFails: 1}}
			}
			if err := h.Provision(e.Ctx); err != nil {
				panic(err)
			}
			h.VerifSetLogger(e.Log)
			e.S.OnCleanup(func() { _ = h.Cleanup() })
			if mode == 1 && !failover && tp.Prob(1, 3, "second-sender") {
				// a second client through the same proxy handler at about the same time: each upstream
				// connection must get the header of the client whose stream follows it
				plan2 = &worlds.ClientPlan{ID: 2, Addr: worlds.ClientAddr(2), End: worlds.EndHalfClose}
				model2 = &worlds.ConnModel{ID: 2, Key: e.S.Seed*7 + 2, Addr: plan2.Addr.String()}
				model2.App = worlds.Stream(model2.Key, 16+tp.LogRange(0, 6000, "app-len-2"))
				plan2.App = model2.App
				plan2.StartAt = time.Duration(tp.Choose(3, "start2-ms")) * time.Millisecond
				sender2 = true
			}
			if !sender2 && tp.Prob(1, 3, "consume") {
				k := tp.LogRange(0, 500, "consume-k")
				if k > appLen {
					k = appLen
				}
				cs := HSpec{Kind: "consume", Name: "con", K: k}
				hs = append(hs, b.Handler(&cs, sig))
				consumeK = k
			}
			if modelB != nil {
				logical := model.App
				if mode == 2 && allowed {
					logical = payload
				}
				modelB.App = logical[consumeK:]
			}
			if mode == 1 && appLen > 0 && tp.Prob(1, 2, "sender-matcher") {
				// the route with the proxy is entered through a matcher that needed data: what was
				// prefetched for it belongs to the stream every upstream gets behind its header, on
				// every attempt
				need := tp.Pick("sender-need", 1, 5, 300, 2049)
				if need > appLen {
					need = appLen
				}
				sets = []layer4.MatcherSet{{&worlds.SpecMatcher{E: e, ID: "msend", Need: need, Mode: tp.Choose(4, "mode"), Yes: func([]byte) bool { return true }}}}
				sample.Matcher = fmt.Sprintf("spec need=%d", need)
			}
			mk := HSpec{Kind: "vmark", Name: "P0"}
			hs = append(hs, b.Handler(&mk, sig), h)
		}
		routes := layer4.RouteList{layer4.VerifNewRoute(sets, hs)}
		if mode == 0 && splitAt > 0 && ipPost != nil {
			ip1 := HSpec{Kind: "vmark", Name: "IP1"}
			second := append([]layer4.NextHandler{b.Handler(&ip1, sig)}, hs[splitAt:]...)
			routes = layer4.RouteList{layer4.VerifNewRoute(sets, hs[:splitAt:splitAt]), layer4.VerifNewRoute([]layer4.MatcherSet{{ipPost}}, second)}
			sample.Layout = "remote_ip(peer) -> proxy_protocol ; remote_ip(declared source) -> rest"
		} else if mode == 0 && splitAt > 0 && len(sets) == 0 && tp.Prob(1, 2, "two-routes") {
			// the proxy_protocol handler ends its route; what follows is a route of its own
			// (only with an unconditional first route: behind a matcher that still waits for
			// data the unconditional second route legitimately runs first)
			routes = layer4.RouteList{layer4.VerifNewRoute(sets, hs[:splitAt:splitAt]), layer4.VerifNewRoute(nil, hs[splitAt:])}
			sample.Layout = "handler ends its route"
		}
		plan.Chunks = e.MakeChunks(len(plan.App), 10*time.Millisecond)
		if mode == 1 && consumeK == 0 && len(sets) == 0 && len(plan.Chunks) > 0 && tp.Prob(1, 4, "silent-start") {
			// a client of a server-speaks-first protocol: silent for a while. The upstream must get
			// the header when the connection is made, not when the client first writes
			silentFor = 400 * time.Millisecond
			plan.Chunks[0].Delay = silentFor
			sample.ClientEnd = "silent for 400ms, then "
		}
		if mode == 1 && len(plan.Chunks) >= 2 && tp.Prob(1, 5, "long-session") {
			// a session that is still in use well after the dial: the rest of the stream follows
			// the header no matter how late it is sent
			plan.Chunks[len(plan.Chunks)-1].Delay = 6 * time.Second
			sample.ClientEnd += "last chunk after 6s, then "
		}
		if mode == 0 && ppTimeout > 0 && len(plan.Chunks) >= 2 && len(payload) > 0 && tp.Prob(2, 3, "late-payload") {
			// the header arrives in time; the last part of the payload only after the header timeout
			late := ppTimeout + time.Duration(tp.Pick("late-extra-ms", 50, 1, 900))*time.Millisecond
			li := len(plan.Chunks) - 1
			start := 0
			for _, ch := range plan.Chunks[:li] {
				start += ch.N
			}
			if start >= len(hdrBytes) {
				plan.Chunks[li].Delay = late
				sample.ClientEnd += "last chunk after the header timeout, then "
			} else if k := len(hdrBytes) - start; plan.Chunks[li].N > k {
				// the late piece is payload only
				rest := plan.Chunks[li].N - k
				plan.Chunks[li].N = k
				plan.Chunks = append(plan.Chunks, worlds.Chunk{N: rest, Delay: late})
				sample.ClientEnd += "last chunk after the header timeout, then "
			}
		}
		plan.End = worlds.EndHalfClose
		sample.ClientEnd += "half-close"
		if mode != 1 && tp.Prob(1, 8, "abort-mid-header") {
			plan.End = worlds.EndAbort
			plan.AbortAt = tp.Choose(len(hdrBytes)+1, "abort-at")
			aborted = true
			if modelB != nil {
				modelB.Aborted = true
			}
			sample.ClientEnd = fmt.Sprintf("abort at %d", plan.AbortAt)
		}
		e.Reg.Add(model)
		w = e.NewTCPWorld(routes, 0)
		cl = e.StartClient(w.Ln, plan, model)
		w.Clients = append(w.Clients, cl)
		if plan2 != nil {
			plan2.Chunks = e.MakeChunks(len(plan2.App), 10*time.Millisecond)
			e.Reg.Add(model2)
			w.Clients = append(w.Clients, e.StartClient(w.Ln, plan2, model2))
			sample.SecondConn = true
		}
		sample.AppLen, sample.Net = appLen, e.N.Cfg
		return func() bool {
			if !w.Done() {
				return false
			}
			if ups != nil {
				for _, r := range ups.RecsSnapshot() {
					if !r.Done {
						return false
					}
				}
			}
			return len(liveWith(e, "up:")) == 0
		}
	}, func() {
		sample.Seen = append(seen, seenB...)
		if e.S.Capped {
			return
		}
		sig := sample.Mode
		fail := func(kind, format string, a ...any) { e.S.Fail("C12/"+kind, sig, format, a...) }
		clientAddr := worlds.ClientAddr(1).String()
		serverAddr := "10.0.0.1:443"
		effSrc, effDst := clientAddr, serverAddr
		declares := hdr != nil && allowed && !hdr.Unknown && !hdr.Local
		if declares {
			effSrc, effDst = hdr.Src.String(), hdr.Dst.String()
		}
		if mode != 1 && sample.Matcher == "proxy_protocol" && !aborted && model.WroteAll && cl.WriteErr == nil {
			entered := false
			for _, hc := range model.HandlerCalls {
				if hc.Handler == "M0" {
					entered = true
				}
			}
			if !entered {
				fail("header-not-recognised", "the client sent a complete well-formed %s (client chunks %v) and the rest of its stream, but the route behind the proxy_protocol matcher never ran", sample.Header, chunkSizes(cl.Plan.Chunks, 6))
				return
			}
		}
		if ipPost != nil && !aborted && model.WroteAll && cl.WriteErr == nil {
			entered := false
			for _, hc := range model.HandlerCalls {
				if hc.Handler == "IP1" {
					entered = true
				}
			}
			if ppTimeout > 0 && !calledHandler(model, "ppdone") {
				entered = true // the handler's own timeout may have expired on a slow network: not judged
			}
			if !entered {
				fail("addresses", "after the header (declaring source %v) the route guarded by remote_ip %v never ran: the shipped ip matcher did not see the declared address", hdr.Src, hdr.Src.IP)
				return
			}
		}
		// receiver side: what handlers after the proxy_protocol handler saw
		if mode != 1 && (declares || !allowed) {
			// (UNKNOWN / LOCAL headers declare no addresses: what handlers see then is
			// left to the PROXY protocol library and not judged)
			for _, s := range seen {
				effSrc, effDst := effSrc, effDst
				if hdr2 != nil && (s.Remote == hdr2.Src.String() || s.ConnRemote == hdr2.Src.String() || s.PHRemote == hdr2.Src.String()) {
					effSrc, effDst = hdr2.Src.String(), hdr2.Dst.String() // the second client's connection
				}
				if s.Remote != effSrc || s.Local != effDst {
					fail("addresses", "handler after proxy_protocol saw remote=%s local=%s; expected %s / %s (header declares=%v, peer allowed=%v)", s.Remote, s.Local, effSrc, effDst, declares, allowed)
					return
				}
				if s.ConnRemote != effSrc {
					fail("addresses", "cx.Conn.RemoteAddr() (used by the ip matchers) is %s after the header; expected %s", s.ConnRemote, effSrc)
					return
				}
				if s.PHRemote != effSrc || s.PHLocal != effDst {
					fail("placeholders", "placeholders after proxy_protocol: l4.conn.remote_addr=%s l4.conn.local_addr=%s; expected %s / %s", s.PHRemote, s.PHLocal, effSrc, effDst)
					return
				}
			}
		}
		if mode != 1 && !(declares || !allowed) {
			// a header that declares no addresses (v1 UNKNOWN, v2 LOCAL / UNSPEC): which addresses
			// the connection shows then is the library's business, but the placeholders still name
			// the addresses later handlers and matchers see on the connection - never nothing
			for _, s := range seen {
				if s.PHRemote != s.Remote || s.PHLocal != s.Local {
					fail("placeholders", "after a header that declares no addresses the placeholders are l4.conn.remote_addr=%q l4.conn.local_addr=%q while handlers see remote=%s local=%s on the connection", s.PHRemote, s.PHLocal, s.Remote, s.Local)
					return
				}
			}
		}
		if mode == 0 && !aborted && cl.WriteErr == nil && model.WroteAll {
			// the client delivered header and payload and half-closed: a handler that got the connection
			// behind the header reads to a clean EOF (a left-over header deadline, a closed or reset
			// connection shows as another error)
			for _, st := range model.Recorders {
				if st.Done && st.Err != nil && st.Err != io.EOF && !st.Bad {
					fail("read-error", "%s behind the proxy_protocol handler (handler timeout %v) read %d bytes from offset %d of %d and then failed with %q; the client wrote everything (last chunk delay %v) and half-closed",
						st.Name, ppTimeout, st.Got, st.Start, len(model.App), st.Err, cl.Plan.Chunks[len(cl.Plan.Chunks)-1].Delay)
					return
				}
			}
		}
		if mode == 0 || aborted {
			return // payload integrity is checked by the recorder (C01 oracle)
		}
		// sender side
		off := -1
		for _, hc := range model.HandlerCalls {
			if hc.Handler == "P0" {
				off = hc.Offset
			}
		}
		if off < 0 {
			return
		}
		exp := model.App[off:]
		if mode == 1 {
			recs := ups.RecsSnapshot()
			if len(recs) == 0 {
				return
			}
			if failover {
				bad, good := 0, 0
				for _, r := range recs {
					if r.Addr == "10.1.0.9:80" {
						bad++
					} else if len(r.Received) > 0 {
						good++
					}
				}
				if bad > 0 && good > 0 {
					e.S.Stats["probe_failover_reached_healthy_upstream"]++
				}
			}
			for _, upRaw = range recs {
				got := upRaw.Received
				n, ver, has, src, dst, err := ParsePP(got)
				if err != nil {
					if len(got) < 16+36 && !upRaw.SawEOF {
						continue
					}
					fail("sent-header", "upstream %s received no well-formed PROXY header (%v); first bytes % x", upRaw.Addr, err, head(got, 32))
					return
				}
				sample.UpHeader = fmt.Sprintf("v%d addr=%v src=%v dst=%v len=%d", ver, has, src, dst, n)
				if silentFor > 0 && upRaw.FirstDataAt >= silentFor {
					fail("sent-header", "upstream %s (connected at %v) received the first byte of the header only at %v: it was held back until the client, silent for %v, wrote", upRaw.Addr, upRaw.AcceptAt, upRaw.FirstDataAt, silentFor)
					return
				}
				if ver != sendVer {
					fail("sent-header", "proxy configured for v%d sent a v%d header", sendVer, ver)
					return
				}
				rest := got[n:]
				if sender2 {
					// which client's stream follows the header decides whose addresses it has to carry
					e2 := model2.App
					own1 := len(rest) >= 8 && len(rest) <= len(exp) && bytes.Equal(rest, exp[:len(rest)])
					own2 := len(rest) >= 8 && len(rest) <= len(e2) && bytes.Equal(rest, e2[:len(rest)])
					switch {
					case own2 && !own1:
						if !has || src.String() != model2.Addr {
							fail("sent-addresses", "upstream connection %s#%d carries the stream of client %s behind a header declaring %v -> %v (two clients connected at about the same time)", upRaw.Addr, upRaw.Idx, model2.Addr, src, dst)
							return
						}
						continue
					case !own1:
						if len(rest) >= 8 {
							fail("sent-stream", "bytes after the header are the stream of neither client: % x", head(rest, 12))
							return
						}
						continue // too little to tell the owner
					}
				}
				if !has || src.String() != effSrc || dst.String() != effDst {
					fail("sent-addresses", "header sent upstream declares %v -> %v; the client's effective addresses are %s -> %s", src, dst, effSrc, effDst)
					return
				}
				if len(rest) > len(exp) || !bytes.Equal(rest, exp[:len(rest)]) {
					fail("sent-stream", "bytes after the header are not the client's stream from offset %d: want % x got % x", off, head(exp, 12), head(rest, 12))
					return
				}
				if _, _, _, _, _, err2 := ParsePP(rest); err2 == nil && len(rest) > 0 {
					fail("sent-header", "a second PROXY header follows the first")
					return
				}
				if upRaw.SawEOF && cl.WriteErr == nil && model.WroteAll && len(rest) != len(exp) {
					fail("sent-stream", "upstream saw EOF after %d of %d stream bytes", len(rest), len(exp))
				}
			}
			return
		}
		// composition: what the first server sent to the second, byte for byte
		lk()
		tap := append([]byte(nil), tapB...)
		ulk()
		if n, ver, has, src, dst, err := ParsePP(tap); err == nil && allowed && hdr != nil && !hdr.Unknown {
			_ = n
			switch {
			case ver != sendVer:
				fail("sent-header", "proxy configured for v%d relayed a v%d header", sendVer, ver)
				return
			case !has && !(sendVer == 1 && hdr.UDP):
				// (v1 cannot name a datagram pair: UNKNOWN is all it has)
				fail("sent-addresses", "the header sent upstream declares no addresses; the client's effective addresses are %s -> %s (received header: %s)", effSrc, effDst, sample.Header)
				return
			case has && (src.String() != effSrc || dst.String() != effDst) && !(sendVer == 1 && hdr.UDP):
				fail("sent-addresses", "header sent upstream declares %v -> %v; the client's effective addresses are %s -> %s", src, dst, effSrc, effDst)
				return
			case has && ver == 2 && (tap[13]&0x0f == 2) != hdr.UDP:
				fail("sent-addresses", "header sent upstream has family/protocol byte %#02x; the effective addresses are a datagram pair: %v", tap[13], hdr.UDP)
				return
			}
		}
		// server B's recorder checked the payload against modelB.App; set lazily
		for _, s := range seenB {
			if hdr != nil && allowed && (hdr.Unknown || (hdr.UDP && sendVer == 1)) {
				break // no addresses to relay (v1 cannot name a datagram pair)
			}
			if s.Remote != effSrc || s.Local != effDst {
				fail("composition-addresses", "second server saw remote=%s local=%s after the relayed header; the client's effective addresses are %s / %s", s.Remote, s.Local, effSrc, effDst)
				return
			}
		}
	})
	nontrivial := len(sample.Seen) > 0 || sample.UpHeader != ""
	return nontrivial, sample
}


func chunkSizes(cs []worlds.Chunk, n int) []int {
	var out []int
	for i, c := range cs {
		if i >= n {
			break
		}
		out = append(out, c.N)
	}
	return out
}

func calledHandler(m *worlds.ConnModel, name string) bool {
	for _, hc := range m.HandlerCalls {
		if hc.Handler == name {
			return true
		}
	}
	return false
}

// tapConn records what is read from a connection (the bytes one server sent to the next).
type tapConn struct {
	net.Conn
	buf *[]byte
}

func (t *tapConn) Read(p []byte) (int, error) {
	n, err := t.Conn.Read(p)
	if n > 0 {
		lk()
		if len(*t.buf) < 4096 {
			*t.buf = append(*t.buf, p[:n]...)
		}
		ulk()
	}
	return n, err
}

func (t *tapConn) CloseWrite() error {
	if cw, ok := t.Conn.(interface{ CloseWrite() error }); ok {
		return cw.CloseWrite()
	}
	return nil
}
