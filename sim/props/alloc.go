package props

import "runtime"

// allocNow returns the cumulative bytes allocated by the process. Only one
// simulated goroutine runs at a time, so a delta across a call is attributable.
func allocNow() uint64 {
	var m runtime.MemStats
	runtime.ReadMemStats(&m)
	return m.TotalAlloc
}
