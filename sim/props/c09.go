package props

import (
	"net"
	"strings"
	"os"
	"bytes"
	"fmt"
	"testing"
	"time"

	"github.com/mholt/caddy-l4/layer4"
	"github.com/mholt/caddy-l4/modules/l4echo"

	"verif/sim/simnet"
	"verif/sim/worlds"
)

type c09Sample struct {
	Clients   int      `json:"clients"`
	Datagrams []int    `json:"datagrams_per_client"`
	Handler   string   `json:"handler"`
	Matcher   string   `json:"matcher"`
	Timeout   string   `json:"matching_timeout"`
	Faults    simnet.UDPFaults `json:"udp_faults"`
	Assocs    int      `json:"associations"`
	Arrived   int      `json:"datagrams_arrived"`
	Delivered int      `json:"datagrams_delivered"`
	Replies   int      `json:"replies"`
	SockClose string   `json:"socket_closed_at"`
	SimTime   string   `json:"simulated_time"`
	Sockets   int      `json:"sockets_of_the_server,omitempty"`
}

func init() {
	register(&Prop{
		ID:   "C09",
		Rule: "each run serves a simulated UDP socket with the real Server.servePacket/packetConn and draws 1..14 client addresses sending bursts of position-coded datagrams (sizes 1..9000 and above, bursts beyond the channel capacities 5/10/10, gaps around the 30s idle timeout), network drop/duplicate/reorder/delay before arrival, a handler (recording handler that replies and stops after k datagrams and may stay away from its queue for up to 45s or leave without reading, or the real echo), optionally a matcher with a short matching timeout, temporary read errors and socket Close at an arbitrary instant. Oracle over arrival order at the socket: per-association bytes are a contiguous in-order run of that client's arrivals, disjoint and increasing across its associations, never another client's; replies go to the writer's client; datagrams arriving after an association ended are served by a fresh one; the process survives; bounded liveness: the loop and every association wind down within the idle timeout after the last datagram (a run that exhausts the 30-minute simulated-time cap with blocked server goroutines is a violation). Non-trivial: >=2 clients interleaved or >=2 associations for one client; distinct: event-log hashes.",
		Run:  runC09,
		MaxTime: 30 * time.Minute,
		MaxSteps: 40000,
	})
}

func runC09(t *testing.T, e *worlds.Env, tier string) (bool, any) {
	sample := &c09Sample{}
	var uw *worlds.UDPWorld
	var assocs []*worlds.AssocRec
	useEcho := false
	keys := map[string]uint64{}
	var sockCloseStep = -1
	hasMatcher := false
	var slowFor time.Duration
	slowAll, slowDgrams := false, 0
	var woundDown func() bool
	var urec *worlds.UDPRec
	e.Run(t, func() func() bool {
		yieldKnob(e)
		e.S.YieldOn = nil // all yield sites: the close/arrival windows are the point of this world
		if e.T.Prob(1, 4, "yield-subset") {
			yieldKnob(e)
		}
		tp := e.T
		nclients := 1 + tp.Weighted("nclients", 3, 3, 2, 1, 1, 1)
		many := tp.Prob(1, 8, "many-clients")
		if many {
			// more associations than the close-notification channel holds
			nclients = 7 + tp.Choose(8, "nclients-many")
		}
		faults := simnet.UDPFaults{}
		if tp.Prob(1, 2, "udp-faults") {
			faults.DropPerm = tp.Pick("drop", 0, 50, 300)
			faults.DupPerm = tp.Pick("dup", 0, 50, 300)
			faults.ReorderPerm = tp.Pick("reorder", 0, 100, 500)
			faults.MaxLatency = time.Duration(tp.Pick("udp-lat-ms", 0, 2, 40)) * time.Millisecond
		}
		sample.Faults = faults
		useEcho = tp.Prob(1, 4, "echo")
		var h layer4.NextHandler
		if useEcho {
			h = &l4echo.Handler{}
			sample.Handler = "echo"
		} else {
			u := &worlds.UDPRec{E: e, Reply: tp.Prob(2, 3, "reply"), MaxReads: tp.Pick("max-reads", 0, 1, 2, 5, 12), BufSize: tp.Pick("bufsize", 9216, 9216, 100, 2048), Log: &assocs}
			h = u
			urec = u
			sample.Handler = fmt.Sprintf("udprec(max=%d,reply=%v,buf=%d)", u.MaxReads, u.Reply, u.BufSize)
			slowNum := 1
			if many {
				slowNum = 2
			}
			if tp.Prob(slowNum, 4, "slow-handler") {
				// one client's handler (or every handler) is busy elsewhere and does not read for a
				// while: its queue fills, the server loop waits on it, notifications pile up
				u.SlowFor = time.Duration(tp.Pick("slow-ms", 200, 5000, 31000, 45000)) * time.Millisecond
				if !tp.Prob(1, 4, "slow-all") {
					u.SlowClient = worlds.UDPClientAddr(1).String()
				} else {
					slowAll = true
				}
				u.SlowNoRead = tp.Prob(1, 3, "slow-noread")
				slowFor = u.SlowFor
				sample.Handler += fmt.Sprintf(" slow(%q,%v,noread=%v)", u.SlowClient, u.SlowFor, u.SlowNoRead)
			}
		}
		var sets []layer4.MatcherSet
		timeout := time.Duration(tp.Pick("timeout-ms", 3000, 100, 700)) * time.Millisecond
		if !useEcho && tp.Prob(1, 3, "matcher") {
			hasMatcher = true
			need := tp.Pick("need", 1, 10, 600, 3000)
			sets = []layer4.MatcherSet{{&worlds.SpecMatcher{E: e, ID: "m", Need: need, Mode: tp.Choose(4, "mode"), Yes: func([]byte) bool { return true }}}}
			sample.Matcher = fmt.Sprintf("need %d bytes", need)
		}
		sample.Timeout = timeout.String()
		routes := layer4.RouteList{layer4.VerifNewRoute(sets, []layer4.NextHandler{h})}
		uw = e.NewUDPWorld(routes, timeout)
		sample.Clients = nclients
		twoSocks := tp.Prob(1, 5, "two-sockets")
		if twoSocks {
			uw.AddSocket() // a second listen address of the same server
			sample.Sockets = 2
		}
		// clients on different links with the same link-local address and port: only the zone tells them apart
		zoned := nclients >= 2 && tp.Prob(1, 6, "zoned-clients")
		for i := 1; i <= nclients; i++ {
			addr := worlds.UDPClientAddr(i)
			if zoned && i <= 3 {
				addr = &net.UDPAddr{IP: net.ParseIP("fe80::1"), Port: 546, Zone: fmt.Sprintf("eth%d", i)}
			}
			key := e.S.Seed*977 + uint64(i)
			keys[addr.String()] = key
			plan := &worlds.UDPClientPlan{ID: i, Addr: addr, Faults: faults}
			nd := 1 + tp.LogRange(0, 40, "ndgrams")
			if many && nd > 8 {
				nd = 8
			}
			off := 0
			for j := 0; j < nd; j++ {
				var sz int
				switch tp.Weighted("dsize", 6, 3, 1, 1) {
				case 0:
					sz = 12 + tp.Choose(64, "dsz") // >= 12 bytes: a datagram is identifiable from its content
				case 1:
					sz = 1 + tp.Choose(2500, "dsz")
				case 2:
					sz = 8990 + tp.Choose(11, "dsz")
				default:
					sz = 9001 + tp.Choose(500, "dsz") // truncated by the socket buffer
				}
				// every datagram starts with an 8-byte header: client key low bytes + datagram index
				d := make([]byte, sz)
				for x := range d {
					d[x] = worlds.StreamByte(key, off+x)
				}
				off += sz
				var delay time.Duration
				switch tp.Weighted("gap", 8, 3, 1, 1) {
				case 1:
					delay = time.Duration(1+tp.Choose(50, "gap-ms")) * time.Millisecond
				case 2:
					delay = time.Duration(29000+tp.Choose(2000, "gap-idle")) * time.Millisecond // around the idle timeout
				case 3:
					delay = time.Duration(500+tp.Choose(3000, "gap-long")) * time.Millisecond
				}
				plan.Sends = append(plan.Sends, worlds.UDPSend{Data: d, Delay: delay, ToSock2: twoSocks && tp.Prob(1, 2, "to-sock2")})
			}
			sample.Datagrams = append(sample.Datagrams, nd)
			if slowAll || i == 1 {
				slowDgrams += nd // each may be served by an association of its own that stays away first
			}
			uw.StartClient(plan)
		}
		woundDown = func() bool {
			lk()
			last, all := uw.LastSendAt, true
			for _, c := range uw.Clients {
				all = all && c.Done
			}
			ulk()
			return all && e.S.Elapsed() > last+40*time.Second+slowFor*time.Duration(slowDgrams+1)
		}
		if urec != nil && urec.MaxReads > 0 && !hasMatcher && tp.Prob(1, 3, "close-then-read") {
			// (not behind a matcher: the rest of what layer4 prefetched for matching is still readable there)
			// the handler closes the association itself and keeps reading (an aborted copy loop)
			urec.CloseThenRead = 1 + tp.Choose(4, "ctr-n")
			sample.Handler += fmt.Sprintf(" close-then-read(%d)", urec.CloseThenRead)
		}
		if urec != nil && tp.Prob(1, 5, "zero-reads") {
			urec.ZeroReads = true
			sample.Handler += " zero-length-probes"
		}
		if tp.Prob(1, 5, "read-timeouts") {
			uw.Sock.InjectReadTimeouts(1 + tp.Choose(3, "rt-n"))
		}
		if tp.Prob(1, 6, "sock-close") {
			at := time.Duration(tp.Choose(3000, "sock-close-ms")) * time.Millisecond
			sample.SockClose = at.String()
			e.S.Go("sockcloser", func() {
				time.Sleep(at)
				sockCloseStep = e.S.StepNow()
				_ = uw.Sock.Close()
				// keep simulated time moving until the rest has wound down (see the end condition)
				for i := 0; i < 400 && !woundDown(); i++ {
					time.Sleep(5 * time.Second)
				}
			})
		}
		return func() bool {
			if uw.Done() {
				return true
			}
			// After the socket is closed the server loop is gone and nothing drains the
			// close notifications any more: with more than a handful of associations alive
			// their handlers stay blocked in Close for good (shutdown behaviour outside this
			// property, see DESIGN.md). The run ends once everything else has wound down.
			if sockCloseStep < 0 {
				return false
			}
			return woundDown()
		}
	}, func() {
		sample.SimTime = e.S.SimElapsed.String()
		if e.S.Capped {
			// bounded liveness: every association ends at the latest one idle timeout after its
			// client's last datagram (plus the time a slow handler stays away), so a run that
			// used up the simulated-time cap long after that is a server that stopped serving
			if os.Getenv("VERIF_DEBUG_CAP") != "" {
				e.S.Fail("C09/capdebug", fmt.Sprint(e.S.Seed), "capped by %s: %s sockclose=%q live=%v wound=%v last=%v step=%d", e.S.CappedBy, sample.Handler, sample.SockClose, e.S.Live(), woundDown(), uw.LastSendAt, sockCloseStep)
			}
			if e.S.CappedBy == "time" && sockCloseStep < 0 {
				lk()
				last := uw.LastSendAt
				ulk()
				if slack := e.S.SimElapsed - last - slowFor*time.Duration(slowDgrams+1); slack > 5*time.Minute {
					e.S.Fail("C09/stuck", "udp", "all clients had sent their last datagram by %v, yet %v later these goroutines are still blocked: %v", last, e.S.SimElapsed-last, liveWith(e, "usrv"))
				}
			}
			return
		}
		allAssocs := assocs
		// one server, one or two sockets: each socket is judged on its own (its arrivals, the
		// associations its loop started, the replies that left through it) - a datagram that
		// arrived on one socket has no business in an association of the other
		judge := func(sockName string, arr, sent []simnet.Dgram, gprefix string) {
		var assocs []*worlds.AssocRec
		for _, a := range allAssocs {
			if strings.HasPrefix(a.G, gprefix) {
				assocs = append(assocs, a)
			}
		}
		// an association's Read reports end-of-stream only when the association has been idle for
		// the idle timeout (the timer restarts with every Read call): an earlier EOF means somebody
		// else closed it - e.g. the close notification of the client's previous association
		for _, a := range assocs {
			if a.EOFAfter > 0 && a.EOFAfter < 30*time.Second-5*time.Millisecond {
				e.S.Fail("C09/ended-without-cause", "udprec", "an association of client %s (%s) read end-of-stream at %v after waiting only %v (it had read %d datagrams; idle timeout 30s): it was closed from outside while alive",
					a.Client, a.G, a.EOFAt, a.EOFAfter, len(a.Reads))
				return
			}
		}
		sample.Arrived += len(arr)
		sample.Assocs += len(assocs)
		sample.Replies += len(sent)
		// socket buffer truncates datagrams to 9000 bytes (udpBufPool size)
		const sockBuf = 9000
		perClient := map[string][]simnet.Dgram{}
		for _, d := range arr {
			if len(d.Data) > sockBuf {
				d.Data = d.Data[:sockBuf]
			}
			perClient[d.Peer] = append(perClient[d.Peer], d)
		}
		owner := func(p []byte) string {
			// which client's stream contains p (>=6 bytes)?
			for c, ds := range perClient {
				for _, d := range ds {
					if bytes.Contains(d.Data, p) {
						return c
					}
				}
			}
			return ""
		}
		if useEcho {
			// every reply is one whole datagram of its destination client, in arrival order
			next := map[string]int{}
			for _, s := range sent {
				ds := perClient[s.Peer]
				found := -1
				for i := next[s.Peer]; i < len(ds); i++ {
					if bytes.Equal(ds[i].Data, s.Data) {
						found = i
						break
					}
				}
				if found < 0 {
					who := owner(head(s.Data, 12))
					if who != "" && who != s.Peer {
						e.S.Fail("C09/misaddressed-reply", "echo", "echo reply of %d bytes sent to %s carries a datagram of client %s", len(s.Data), s.Peer, who)
					} else {
						e.S.Fail("C09/reply-order", "echo", "echo reply #%d to %s (%d bytes) is not the next datagram of that client in arrival order (or is duplicated/altered)", s.Seq, s.Peer, len(s.Data))
					}
					break
				}
				next[s.Peer] = found + 1
				sample.Delivered++
			}
			return
		}
		// recording handler: per client, associations in start order
		byClient := map[string][]*worlds.AssocRec{}
		for _, a := range assocs {
			byClient[a.Client] = append(byClient[a.Client], a)
		}
		delivered := map[string]map[int]bool{}
		for c, as := range byClient {
			ds := perClient[c]
			delivered[c] = map[int]bool{}
			// Each association must have read a contiguous in-order run of this client's
			// arrivals starting at a datagram boundary, and the runs of different
			// associations must be disjoint. (Two associations of one client can be alive
			// at the same time - a stale close notification makes the loop start a fresh
			// one - so no order between associations is demanded.)
			type run struct {
				a     *worlds.AssocRec
				k     int
				r     []byte
				first int
			}
			var runs []run
			for k, a := range as {
				r := bytes.Join(a.Reads, nil)
				if len(r) == 0 {
					continue
				}
				first := -1
				for i := 0; i < len(ds); i++ {
					if len(ds[i].Data) > 0 && isPrefixOfConcat(r, ds[i:]) {
						first = i
						break
					}
				}
				if first < 0 {
					who := owner(head(r, 12))
					if who != "" && who != c {
						e.S.Fail("C09/cross-talk", "udprec", "association %d of client %s (%s) read bytes of client %s", k+1, c, a.G, who)
					} else {
						e.S.Fail("C09/order", "udprec", "association %d of client %s (%s) read %d bytes that are not a contiguous in-order run of that client's arrivals starting at a datagram boundary (first bytes % x)",
							k+1, c, a.G, len(r), head(r, 12))
					}
					return
				}
				runs = append(runs, run{a, k, r, first})
			}
			// reads made after the handler closed the association itself: end-of-stream, or
			// whole datagrams of this client that the loop had queued meanwhile - never the
			// rest of a released buffer, never somebody else's bytes
			for k, a := range as {
				r := bytes.Join(a.PostClose, nil)
				if len(r) == 0 {
					continue
				}
				first := -1
				for i := 0; i < len(ds); i++ {
					if len(ds[i].Data) > 0 && isPrefixOfConcat(r, ds[i:]) {
						first = i
						break
					}
				}
				if first < 0 {
					who := owner(head(r, 12))
					if who != "" && who != c {
						e.S.Fail("C09/cross-talk", "udprec", "association %d of client %s (%s), reading after its own Close, got bytes of client %s", k+1, c, a.G, who)
					} else {
						e.S.Fail("C09/read-after-close", "udprec", "association %d of client %s (%s) closed its connection and then read %d bytes that are not whole in-order datagrams of that client (first bytes % x): the rest of a released buffer",
							k+1, c, a.G, len(r), head(r, 12))
					}
					return
				}
				runs = append(runs, run{a, k, r, first})
			}
			// assign runs to arrival indexes without overlap. The network may duplicate
			// datagrams (identical arrivals), so a run can have several candidate positions:
			// search for any consistent assignment (runs are few), report only if none exists
			type cand struct{ i, j int }
			cands := make([][]cand, len(runs))
			for x, rn := range runs {
				for i := rn.first; i < len(ds); i++ {
					if len(ds[i].Data) == 0 || !isPrefixOfConcat(rn.r, ds[i:]) {
						continue
					}
					left, j := len(rn.r), i
					for left > 0 && j < len(ds) {
						left -= len(ds[j].Data)
						j++
					}
					cands[x] = append(cands[x], cand{i, j})
					if len(cands[x]) >= 8 {
						break
					}
				}
			}
			used := make([]bool, len(ds))
			choice := make([]int, len(runs))
			budget := 20000
			var place func(x int) bool
			place = func(x int) bool {
				if x == len(runs) {
					return true
				}
				for ci, cd := range cands[x] {
					if budget--; budget < 0 {
						return true // search budget exhausted: no verdict (never a violation)
					}
					free := true
					for q := cd.i; q < cd.j; q++ {
						if used[q] {
							free = false
							break
						}
					}
					if !free {
						continue
					}
					for q := cd.i; q < cd.j; q++ {
						used[q] = true
					}
					choice[x] = ci
					if place(x + 1) {
						return true
					}
					for q := cd.i; q < cd.j; q++ {
						used[q] = false
					}
				}
				return false
			}
			if !place(0) {
				rn := runs[len(runs)-1]
				for x := range runs {
					if len(cands[x]) == 1 {
						rn = runs[x]
					}
				}
				e.S.Fail("C09/delivered-twice", "udprec", "the associations of client %s cannot all have read distinct arrivals: e.g. association %d (%s) read %d bytes (arrival #%d) that another association of that client had already received",
					c, rn.k+1, rn.a.G, len(rn.r), rn.first)
				return
			}
			if budget >= 0 {
				for x := range runs {
					cd := cands[x][choice[x]]
					for q := cd.i; q < cd.j; q++ {
						delivered[c][q] = true
					}
					sample.Delivered += cd.j - cd.i
				}
			} else {
				for q := range ds {
					delivered[c][q] = true // no verdict on drops either
				}
			}
		}
		// replies: destination must be the client whose association wrote it
		for _, s := range sent {
			if len(s.Data) < 3+6 {
				continue
			}
			who := owner(s.Data[3:])
			if who != "" && who != s.Peer {
				e.S.Fail("C09/misaddressed-reply", "udprec", "reply to a datagram of client %s was sent to %s", who, s.Peer)
				break
			}
		}
		// fresh association: a datagram that arrived after every association of its client
		// (created before its arrival) had ended must have been delivered to some association
		for c, ds := range perClient {
			as := byClient[c]
			for i, d := range ds {
				if delivered[c][i] || len(d.Data) == 0 {
					continue
				}
				if sockCloseStep >= 0 {
					// the server was shut down during the run: whatever sat in the socket queue or
					// in the loop's channels at that moment (behind a slow handler: arbitrarily old)
					// is legitimately lost
					continue
				}
				if hasMatcher {
					continue // an association that fails matching drops what it prefetched: not attributable per datagram
				}
				// the client's only association reads until end-of-stream, nobody holds the loop up,
				// and it went on reading for more than a second after this datagram had arrived: it
				// was queued there (anything else would have started a second association) and the
				// handler's reads must have produced it
				if len(as) == 1 && urec != nil && urec.MaxReads == 0 && slowFor == 0 && as[0].StartStep <= d.Step && as[0].EOFAt > d.At+time.Second && len(as[0].PostClose) == 0 {
					e.S.Fail("C09/dropped-while-reading", "udprec", "datagram #%d of client %s (%d bytes) arrived on %s at %v; the client's only association (%s) kept reading until %v, yet never received it", i, c, len(d.Data), sockName, d.At, as[0].G, as[0].EOFAt)
					return
				}
				// excusable: some association of this client was still alive when the datagram
				// arrived (or started later): it may have been queued there and dropped when
				// that association ended
				allEndedBefore := true
				for _, a := range as {
					ex, ok := e.S.ExitStep[a.G]
					if !ok || ex >= d.Step {
						allEndedBefore = false
					}
				}
				if allEndedBefore {
					e.S.Fail("C09/dropped-after-end", "udprec", "datagram #%d of client %s arrived on %s (step %d) after all of its earlier associations had ended, but no association received it", i, c, sockName, d.Step)
					return
				}
			}
		}
		}
		judge("usock", uw.Sock.ArrivalsSnapshot(), uw.Sock.SentSnapshot(), "usrv.")
		if uw.Sock2 != nil && len(e.S.Failures) == 0 {
			judge("usock2", uw.Sock2.ArrivalsSnapshot(), uw.Sock2.SentSnapshot(), "usrv2.")
		}
	})
	nontrivial := sample.Clients >= 2 || sample.Assocs >= 2
	return nontrivial, sample
}

func isPrefixOfConcat(r []byte, ds []simnet.Dgram) bool {
	off := 0
	for _, d := range ds {
		if off >= len(r) {
			return true
		}
		n := len(d.Data)
		if n > len(r)-off {
			n = len(r) - off
		}
		if !bytes.Equal(r[off:off+n], d.Data[:n]) {
			return false
		}
		off += n
	}
	return off >= len(r)
}
