package props

import (
	"os"
	"strings"
)

type raceReport struct {
	repo bool
	sig  string
	msg  string
}

// newRaceReports reads what the race detector appended to its log file since
// the last call and classifies each report: it counts for the property only if
// both accesses are attributed to repository code (first frame that is not the
// Go runtime/standard library (or golang.org/x) or the simulator lies in github.com/mholt/caddy-l4).
func newRaceReports(path string, off *int64) []raceReport {
	b, err := os.ReadFile(path)
	if err != nil || int64(len(b)) <= *off {
		return nil
	}
	txt := string(b[*off:])
	*off = int64(len(b))
	var out []raceReport
	for _, blk := range strings.Split(txt, "==================") {
		if !strings.Contains(blk, "WARNING: DATA RACE") {
			continue
		}
		// sections: "Write at ... by goroutine N:" / "Previous read at ... by goroutine M:" / "Goroutine N ... created at:"
		var accesses [][]string
		var cur []string
		in := false
		for _, l := range strings.Split(blk, "\n") {
			t := strings.TrimSpace(l)
			switch {
			case strings.HasPrefix(t, "Write at "), strings.HasPrefix(t, "Read at "), strings.HasPrefix(t, "Previous write at "), strings.HasPrefix(t, "Previous read at "),
				strings.HasPrefix(t, "Atomic write at"), strings.HasPrefix(t, "Previous atomic write at"), strings.HasPrefix(t, "Atomic read at"), strings.HasPrefix(t, "Previous atomic read at"):
				if in {
					accesses = append(accesses, cur)
				}
				cur, in = nil, true
			case strings.HasPrefix(t, "Goroutine "):
				if in {
					accesses = append(accesses, cur)
				}
				in = false
			case in && t != "" && !strings.HasPrefix(t, "/") && !strings.HasPrefix(t, "<") && !strings.Contains(t, ".go:"):
				cur = append(cur, t) // function line
			case in && len(cur) > 0 && strings.HasPrefix(t, "/") && strings.Contains(t, ".go:"):
				// the source line of the frame above. A closure of the repository that the compiler inlined
				// into a harness function carries the harness function's symbol ("verif/sim/worlds.(*Env).
				// NewTCPWorld.VerifNewServer.RouteList.Compile.func3"): the file says whose code it is
				if fn := cur[len(cur)-1]; !strings.HasPrefix(fn, "github.com/mholt/caddy-l4/") {
					if name := repoFrameName(fn, t); name != "" {
						cur[len(cur)-1] = name
					}
				}
			}
		}
		if in {
			accesses = append(accesses, cur)
		}
		// the frame an access is attributed to: the first frame that is not the Go
		// runtime / sync packages; when that is a thin harness wrapper (recording
		// selector, purity wrapper: the race runtime drops the inlined repository
		// frame of an atomic operation) the next frame decides
		top := func(fr []string) string {
			skipped := 0
			sawAtomic := false
			for _, f := range fr {
				if strings.HasPrefix(f, "sync/atomic.") {
					sawAtomic = true
					continue
				}
				// standard library frames (import path whose first element has no dot), golang.org/x:
				// the access happened inside a library object; whoever called into it is responsible
				if isLibFrame(f) {
					continue
				}
				if sawAtomic && (strings.HasPrefix(f, "verif/sim/worlds.") || strings.HasPrefix(f, "verif/sim/props.")) && skipped == 0 &&
					(strings.Contains(f, "RecSelector") || strings.Contains(f, "PurityMatcher")) {
					skipped++
					continue
				}
				return f
			}
			return ""
		}
		if len(accesses) < 2 {
			continue
		}
		a, b2 := top(accesses[0]), top(accesses[1])
		isRepo := func(f string) bool {
			return strings.HasPrefix(f, "github.com/mholt/caddy-l4/") && !strings.Contains(f, "Verif") && !strings.Contains(f, "verif")
		}
		fn := func(f string) string {
			if i := strings.Index(f, "("); i > 0 && !strings.HasPrefix(f[i:], "(*") {
				return f[:i]
			}
			// keep "(*T).M" but cut the argument list
			if i := strings.LastIndex(f, "("); i > 0 {
				return f[:i]
			}
			return f
		}
		r := raceReport{repo: isRepo(a) && isRepo(b2)}
		x, y := fn(a), fn(b2)
		if y < x {
			x, y = y, x
		}
		r.sig = strings.TrimPrefix(x, "github.com/mholt/caddy-l4/") + " <-> " + strings.TrimPrefix(y, "github.com/mholt/caddy-l4/")
		r.msg = "data race between " + a + " and " + b2
		out = append(out, r)
	}
	return out
}


func isLibFrame(f string) bool {
	if strings.HasPrefix(f, "verif/") {
		return false // the harness
	}
	if strings.HasPrefix(f, "golang.org/x/") {
		return true
	}
	// the import path ends before the receiver / argument list
	path := f
	if i := strings.Index(path, "("); i >= 0 {
		path = path[:i]
	}
	if i := strings.Index(path, "/"); i >= 0 {
		// "crypto/hmac.New", "github.com/x/y.F": standard library iff the first element has no dot
		return !strings.Contains(path[:i], ".")
	}
	// no slash: "runtime.foo", "sync.", "main.main"
	return !strings.HasPrefix(path, "main.")
}

// repoFrameName: fn is the symbol of a stack frame, fileLine its "/path/file.go:123 +0x.." line.
// If the file lies in the repository under test (not in an overlay file of the harness) the frame is
// the repository's: the name returned has the repository's import path and what follows the harness
// part of the symbol.
func repoFrameName(fn, fileLine string) string {
	root := os.Getenv("VERIF_REPO")
	if root == "" {
		root = "/repo"
	}
	root = strings.TrimRight(root, "/") + "/"
	if !strings.HasPrefix(fileLine, root) || strings.Contains(fileLine, "zz_verif") || !strings.HasPrefix(fn, "verif/") {
		return ""
	}
	rel := fileLine[len(root):]
	dir := rel
	if i := strings.LastIndex(rel, "/"); i >= 0 {
		dir = rel[:i]
	}
	sym := fn
	if i := strings.LastIndex(sym, "/"); i >= 0 {
		sym = sym[i+1:]
	}
	if i := strings.Index(sym, "("); i >= 0 && strings.HasSuffix(sym, ")") {
		if j := strings.LastIndex(sym, "("); j > 0 {
			sym = sym[:j] // argument list
		}
	}
	parts := strings.Split(sym, ".")
	k := 0
	for i, p := range parts {
		if strings.HasPrefix(p, "Verif") || strings.Contains(p, ")") || i == 0 {
			k = i + 1
		}
	}
	tail := strings.Join(parts[k:], ".")
	if tail == "" {
		tail = "inlined"
	}
	return "github.com/mholt/caddy-l4/" + dir + "." + tail
}
