package props

import (
	"errors"
	"os"
	"strconv"
	"strings"
	"testing"
	"time"

	"github.com/mholt/caddy-l4/layer4"

	"verif/sim/simnet"
	"verif/sim/worlds"
)

type c05Sample struct {
	Transport string        `json:"transport"`
	Config    *RLSpec       `json:"config"`
	Timeout   string        `json:"timeout"`
	Phase     string        `json:"start_phase"`
	Client    string        `json:"client_schedule"`
	AppLen    int           `json:"bytes_offered"`
	Pulled    int           `json:"bytes_pulled_by_server"`
	Accepted  string        `json:"accepted_at"`
	Ended     string        `json:"ended_at"`
	Handlers  []worlds.HandlerCall `json:"handler_calls"`
	Rounds    int           `json:"prefetch_rounds"`
}

func init() {
	register(&Prop{
		ID:   "C05",
		Rule: "each run draws TCP or UDP, a route list with never-deciding / late-deciding / erroring spec matchers (nested subroutes with their own timeouts, occasionally empty), a matching timeout in 50ms..5s (non-integral values included), a sub-second start phase, and a client schedule (silent, trickle, flood beyond the limit, send-then-stall, late reader after a match). Timed oracle on the simulated clock: end of matching <= deadline, never early while undecided, bytes pulled <= limit + one chunk, no handler after the deadline, deadline cleared for handlers. Non-trivial: matching spanned >=2 prefetch rounds or simulated time advanced during matching; distinct: event-log hashes.",
		Run:  runC05,
	})
}

func runC05(t *testing.T, e *worlds.Env, tier string) (bool, any) {
	var model *worlds.ConnModel
	var spec *RLSpec
	var hist []worlds.MatchEval
	cfg := &c02cfg{lists: map[string]*listInfo{}, matcherL: map[string]string{}}
	sample := &c05Sample{}
	udp := false
	var tw *worlds.TCPWorld
	var uw *worlds.UDPWorld
	var cl *worlds.Client
	var timeout time.Duration
	lingerForever := false
	var lateRec time.Duration
	var handlerName string
	var clientEndAt time.Duration = -1
	e.Run(t, func() func() bool {
		// start at a tape-chosen phase within the second
		phase := time.Duration(e.T.Choose(1000, "phase-ms")) * time.Millisecond
		if phase > 0 {
			time.Sleep(phase)
		}
		sample.Phase = phase.String()
		udp = e.T.Prob(1, 3, "udp")
		e.TimerLatency = time.Duration(e.T.Pick("timer-latency-us", 1, 1, 200, 3000)) * time.Microsecond
		e.N.Cfg = netKnobs(e)
		e.N.Cfg.Window = 0
		yieldKnob(e)
		b := &Builder{E: e, Tag: "C05", Hist: &hist}
		o := &genOpts{wrappers: false, maxDepth: 2, maxRoutes: 3, noEcho: true, allowNever: true, allowFail: e.T.Prob(1, 8, "allow-fail")}
		timeout = time.Duration(e.T.Pick("timeout-ms", 3000, 50, 137, 300, 500, 999, 1000, 1500, 2250, 5000)) * time.Millisecond
		spec = genRouteList(e, b, o, 0)
		// make never-deciding matchers frequent: force one into a random route sometimes
		if e.T.Prob(1, 2, "force-never") {
			r := &spec.Routes[e.T.Choose(len(spec.Routes), "never-route")]
			nm := MSpec{ID: b.id("m"), Kind: VNever}
			if len(r.Sets) == 0 {
				r.Sets = [][]MSpec{{nm}}
			} else {
				r.Sets[0] = append([]MSpec{nm}, r.Sets[0]...)
			}
		}
		// recorders read late (after the deadline would have fired) to detect an armed deadline
		lateRec = 0
		if e.T.Prob(1, 2, "late-rec") {
			lateRec = timeout + time.Duration(e.T.Pick("late-extra-ms", 1, 100, 1500))*time.Millisecond
		}
		var setLate func(rl *RLSpec)
		setLate = func(rl *RLSpec) {
			for i := range rl.Routes {
				for j := range rl.Routes[i].Handlers {
					h := &rl.Routes[i].Handlers[j]
					if h.Kind == "recorder" {
						h.Late = lateRec
					}
					if h.Sub != nil {
						h.Sub.Timeout = time.Duration(e.T.Pick("sub-timeout-ms", 3000, 0, 50, 300, 1000, 2250) /* 0: the shipped default */) * time.Millisecond
						if e.T.Prob(1, 10, "empty-sub") {
							h.Sub.Routes = nil
						}
						setLate(h.Sub)
					}
				}
			}
		}
		setLate(spec)
		spec.Timeout = timeout
		annotate(spec, "L", "", cfg)
		// every subroute fallback gets a late recorder behind its mark so that the
		// fallback path is a reader too
		routes := b.RouteList(spec, "matching")
		sample.Config, sample.Timeout = spec, timeout.String()

		// client schedule
		appLen := 0
		var chunks []worlds.Chunk
		sched := e.T.Weighted("client-sched", 3, 3, 3, 2)
		switch sched {
		case 0: // silent (or a few bytes, then silence)
			appLen = e.T.Pick("silent-n", 0, 1, 7, 100)
			if appLen > 0 {
				chunks = []worlds.Chunk{{N: appLen}}
			}
			sample.Client = "silent"
		case 1: // trickle
			n := e.T.Range(2, 40, "trickle-n")
			gap := time.Duration(e.T.Pick("trickle-gap-ms", 10, 49, 100, 250, 400, 990)) * time.Millisecond
			sz := e.T.Pick("trickle-sz", 1, 1, 3, 500)
			for i := 0; i < n; i++ {
				chunks = append(chunks, worlds.Chunk{N: sz, Delay: gap})
				appLen += sz
			}
			sample.Client = "trickle " + strconv.Itoa(sz) + "B/" + gap.String()
		case 2: // flood far beyond the limit
			appLen = layer4.MaxMatchingBytes*e.T.Pick("flood-x", 2, 3, 5) + e.T.Choose(3000, "flood-extra")
			chunks = e.MakeChunks(appLen, 5*time.Millisecond)
			sample.Client = "flood"
		default: // send then stall
			appLen = e.T.Range(1, 9000, "stall-n")
			chunks = e.MakeChunks(appLen, 30*time.Millisecond)
			sample.Client = "send-then-stall"
		}
		sample.AppLen = appLen
		if udp {
			sample.Transport = "udp"
			addr := worlds.UDPClientAddr(1)
			model = &worlds.ConnModel{ID: 1, Key: e.S.Seed*7 + 1, Addr: addr.String()}
			model.App = worlds.Stream(model.Key, appLen)
			e.Reg.Add(model)
			uw = e.NewUDPWorld(routes, timeout)
			plan := &worlds.UDPClientPlan{ID: 1, Addr: addr}
			off := 0
			if len(chunks) == 0 {
				// a UDP association starts with a datagram (an empty datagram reads as
				// EOF on the virtual connection and is left to C09)
				appLen = 1
				model.App = worlds.Stream(model.Key, 1)
				chunks = []worlds.Chunk{{N: 1}}
				sample.AppLen = 1
			}
			for _, ch := range chunks {
				for n := ch.N; n > 0; {
					k := n
					if k > 9000 {
						k = 9000
					}
					plan.Sends = append(plan.Sends, worlds.UDPSend{Data: model.App[off : off+k], Delay: ch.Delay})
					off += k
					n -= k
					ch.Delay = 0
				}
			}
			uw.StartClient(plan)
			lingerForever = true
			e.OnlyG = "usrv.2" // judge the first association only
			return uw.Done
		}
		sample.Transport = "tcp"
		plan := &worlds.ClientPlan{ID: 1, Addr: worlds.ClientAddr(1), Chunks: chunks}
		model = &worlds.ConnModel{ID: 1, Key: e.S.Seed*7 + 1, Addr: plan.Addr.String()}
		model.App = worlds.Stream(model.Key, appLen)
		plan.App = model.App
		switch e.T.Weighted("client-end", 6, 2, 1) {
		case 0:
			plan.End = worlds.EndLinger // stays well beyond every deadline
			plan.Linger = 25 * time.Second
			lingerForever = true
		case 1:
			plan.End = worlds.EndHalfClose
		case 2:
			plan.End = worlds.EndLinger
			plan.Linger = time.Duration(e.T.Pick("linger-ms", 10, 700, 4000)) * time.Millisecond
		}
		e.Reg.Add(model)
		tw = e.NewTCPWorld(routes, timeout)
		cl = e.StartClient(tw.Ln, plan, model)
		tw.Clients = append(tw.Clients, cl)
		return tw.Done
	}, func() {
		if e.S.Capped {
			// bounded liveness: every timeout, client linger and idle expiry of this world is far
			// below the simulated-time cap; a connection goroutine still alive at that cap never
			// left its matching phase (or never got out of a deadline call)
			hn := "srv.1"
			if udp {
				hn = "usrv.2"
			}
			_, started := e.S.StartAt[hn]
			_, exited := e.S.ExitAt[hn]
			if e.S.CappedBy == "time" && started && !exited && time.Duration(e.S.Stats["fault_stall"])*2100*time.Millisecond < 5*time.Minute {
				sig := "tcp"
				if udp {
					sig = "udp"
				}
				e.S.Fail("C05/never-ended", sig, "the connection was accepted at %v with a matching timeout of %v; at the simulated-time cap (%v) its goroutine %s is still alive and matching has not ended", e.S.StartAt[hn], timeout, e.S.SimElapsed, hn)
			}
			return
		}
		// observations
		var accepted, ended time.Duration
		pulled := 0
		hname := "srv.1"
		if udp {
			hname = "usrv.2"
		}
		handlerName = hname
		st, ok1 := e.S.StartAt[hname]
		en, ok2 := e.S.ExitAt[hname]
		if !ok1 || !ok2 {
			return // the connection never reached a handler goroutine (or it never returned: capped)
		}
		accepted, ended = st, en
		if udp {
			for _, d := range uw.Sock.ArrivalsSnapshot() {
				pulled += len(d.Data)
			}
		} else if cl != nil && cl.End != nil {
			pulled = cl.End.Peer().Snapshot().BytesRead
			if cl.WDone {
				clientEndAt = cl.WDoneAt
				if lingerForever && ended >= clientEndAt {
					lingerForever = false // the client left first
				}
			}
		}
		sample.Accepted, sample.Ended, sample.Pulled = accepted.String(), ended.String(), pulled
		checkC05(e, cfg, model, hist, sample, udp, timeout, accepted, ended, pulled, lingerForever, clientEndAt)
	})
	_ = handlerName
	nontrivial := sample.Rounds >= 2 || (sample.Ended != "" && sample.Ended != sample.Accepted)
	return nontrivial, sample
}

func checkC05(e *worlds.Env, cfg *c02cfg, m *worlds.ConnModel, hist []worlds.MatchEval, sample *c05Sample,
	udp bool, timeout, accepted, ended time.Duration, pulled int, clientStays bool, clientEndAt time.Duration) {
	sig := "tcp"
	if udp {
		sig = "udp"
	}
	fail := func(kind, format string, a ...any) { e.S.Fail("C05/"+kind, sig, format, a...) }
	calls := m.HandlerCalls
	sample.Handlers = calls
	lastVis := -1
	for _, ev := range hist {
		if ev.Visible != lastVis {
			sample.Rounds++
			lastVis = ev.Visible
		}
	}
	slack := time.Duration(e.S.Stats["fault_stall"])*2100*time.Millisecond + 16*e.TimerLatency

	// list entry instants: top list when the connection goroutine started; a
	// sub-list when its "E:" mark (placed right before the subroute handler) ran
	firstSeen := map[string]time.Duration{"L": accepted}
	for _, c := range calls {
		if strings.HasPrefix(c.Handler, "E:") {
			firstSeen[c.Handler[2:]] = c.At
		}
	}
	tmo := func(lid string) time.Duration {
		li := cfg.lists[lid]
		if li == nil || li.spec.Timeout <= 0 {
			return layer4.MatchingTimeoutDefault
		}
		return li.spec.Timeout
	}
	// (c) no route handler of list X starts after X's deadline (matching phase over => fail closed)
	for _, c := range calls {
		if !strings.HasPrefix(c.Handler, "R:") {
			continue
		}
		p := strings.LastIndex(c.Handler, "/")
		lid := c.Handler[2:p]
		// the deadline of list X is computed when X's handler starts: not later than the first evaluation in X
		start, ok := firstSeen[lid]
		if !ok {
			continue
		}
		prevDone := time.Duration(0)
		for _, d := range calls {
			if d.At < c.At || (d.At == c.At && d.Handler != c.Handler && d.EvalSeq <= c.EvalSeq) {
				if d.DoneAt > prevDone {
					prevDone = d.DoneAt
				}
			}
		}
		if c.At > start+tmo(lid)+slack && c.At > prevDone {
			fail("handler-after-deadline", "list %s: route handler %s started at %v, but matching in that list began no later than %v with timeout %v",
				lid, c.Handler, c.At, start, tmo(lid))
		}
	}
	// recorders must never see a deadline error: once a route matched (or the
	// fallback runs) the matching deadline no longer applies
	for _, r := range m.Recorders {
		if r.Err != nil && errors.Is(r.Err, os.ErrDeadlineExceeded) {
			fail("deadline-left-armed", "handler %s (started at offset %d) failed with a read deadline error after %d bytes: the matching deadline still limits a handler",
				r.Name, r.Start, r.Got)
		}
	}
	terminal := len(m.Recorders) > 0 || m.Stopped
	if terminal {
		return
	}
	// the connection ended during matching (or after a fallback/last non-terminal route => close).
	// Which list was matching when it ended?
	lid := "L"
	lastV := 0
	lastBuf := 0
	lastEvalAt := accepted
	if len(hist) > 0 {
		last := hist[len(hist)-1]
		lid, lastV, lastEvalAt = cfg.matcherL[last.Matcher], last.Visible, last.At
		lastBuf = last.BufLen
		for _, c := range calls {
			if c.Visible >= 0 && c.EvalSeq > last.Seq {
				// a handler started after the last evaluation: the end is not a matching abort
				// unless a deeper list without matchers was entered; be conservative
				return
			}
		}
	}
	li := cfg.lists[lid]
	if li == nil {
		return
	}
	start := accepted
	if lid != "L" {
		s, ok := firstSeen[lid]
		if !ok {
			return
		}
		start = s
	}
	_ = lastEvalAt
	deadline := start + tmo(lid)
	// (a) bounded: the matching phase ends no later than the deadline
	lastDone := time.Duration(0)
	for _, d := range calls {
		if d.DoneAt > lastDone {
			lastDone = d.DoneAt
		}
	}
	if ended > deadline+slack && ended > lastDone {
		fail("late-abort", "matching in list %s started at %v with timeout %v but the connection was only dropped at %v",
			lid, start, tmo(lid), ended)
	}
	// (b) bounded buffering
	limit := m.Consumed + layer4.MaxMatchingBytes + layer4.VerifPrefetchChunkSize
	if !udp && pulled > limit {
		fail("over-buffered", "server pulled %d bytes from the client during matching; limit %d (consumed %d + MaxMatchingBytes + one chunk)", pulled, limit, m.Consumed)
	}
	for _, ev := range hist {
		if ev.BufLen > layer4.MaxMatchingBytes+layer4.VerifPrefetchChunkSize {
			fail("over-buffered", "a matcher saw a prefetch buffer of %d bytes; limit %d", ev.BufLen, layer4.MaxMatchingBytes+layer4.VerifPrefetchChunkSize)
			break
		}
	}
	// (d) not early: dropped before the deadline although some remaining route is undecided,
	// the buffer limit was not reached, no matcher errors, and the client was still there.
	if ended < deadline && clientStays {
		prev := -1
		for _, c := range calls {
			// "R:<list>/<route index>": marks of nested lists ("R:L/1s/0") share the prefix
			if rest, ok := strings.CutPrefix(c.Handler, "R:"+lid+"/"); ok && !strings.Contains(rest, "/") {
				if ri, err := strconv.Atoi(rest); err == nil {
					prev = ri
				}
			}
		}
		off := m.Consumed
		end := off + lastV
		if end > len(m.App) {
			end = len(m.App)
		}
		if off > end {
			off = end
		}
		p := m.App[off:end]
		undecided, errored := false, false
	scan:
		for i := prev + 1; i < len(li.spec.Routes); i++ {
			switch specRoute(&li.spec.Routes[i], p) {
			case sMore:
				undecided = true // later routes are still evaluated in the same round
			case sErr:
				errored = true // a matcher error ends matching
				break scan
			case sYes:
				// would have run (C02 reports it if it did not); not an abort question
				errored = true
				break scan
			}
		}
		bufferFull := lastBuf >= layer4.MaxMatchingBytes
		// UDP: all datagrams offered were consumed and the association may end by idle expiry (30s) - that is later than any deadline here
		if undecided && !errored && !bufferFull {
			fail("early-abort", "matching in list %s (started %v, timeout %v, deadline %v) was abandoned at %v with %d bytes buffered while a route was still undecided",
				lid, start, tmo(lid), deadline, ended, lastV)
		}
	}
}

var _ = simnet.Up
