package props

import (
	"bytes"
	"errors"
	"net"
	"fmt"
	"hash/fnv"
	"testing"
	"time"

	"github.com/mholt/caddy-l4/layer4"
	"github.com/mholt/caddy-l4/modules/l4tls"

	"verif/sim/gen"
	"verif/sim/simnet"
	"verif/sim/worlds"
)

// PurityMatcher wraps a shipped matcher: evaluates it twice per round on the
// same bytes and watches the socket and the buffer meanwhile.
type PurityMatcher struct {
	E     *worlds.Env
	Inner layer4.ConnMatcher
	Name  string
	Tag   string
	// SockReads returns the number of read calls that reached the client socket.
	SockReads func(cx *layer4.Connection) int
	Evals     []PurityEval
	AllocMax  uint64
	// MeasureAlloc: measure bytes allocated by one evaluation (C04).
	MeasureAlloc bool
	AllocLimit   uint64
}

type PurityEval struct {
	Conn    string
	Visible int
	Verdict int // 0 no 1 yes 2 more 3 error
	Alloc   uint64
}

func verdictOf(ok bool, err error) int {
	switch {
	case errors.Is(err, layer4.ErrConsumedAllPrefetchedBytes):
		return 2
	case err != nil:
		return 3
	case ok:
		return 1
	}
	return 0
}

func bufHash(b []byte) uint64 {
	h := fnv.New64a()
	h.Write(b)
	return h.Sum64()
}

func (p *PurityMatcher) Match(cx *layer4.Connection) (bool, error) {
	vis := len(cx.MatchingBytes())
	before := 0
	if p.SockReads != nil {
		before = p.SockReads(cx)
	}
	bl0, _, _ := layer4.VerifBufState(cx)
	h0 := bufHash(layer4.VerifBufBytes(cx))
	var a0 uint64
	if p.MeasureAlloc {
		a0 = allocNow()
	}
	ok1, err1 := p.Inner.Match(cx)
	var alloc uint64
	if p.MeasureAlloc {
		alloc = allocNow() - a0
		if alloc > p.AllocMax {
			p.AllocMax = alloc
		}
		if p.AllocLimit > 0 && alloc > p.AllocLimit {
			p.E.S.Fail(p.Tag+"/allocation", p.Name, "matcher %s allocated %d bytes in one evaluation on %d visible bytes (limit %d = 64 x MaxMatchingBytes); first bytes % x",
				p.Name, alloc, vis, p.AllocLimit, head(cx.MatchingBytes(), 24))
		}
	}
	layer4.VerifRewind(cx)
	ok2, err2 := p.Inner.Match(cx)
	v1, v2 := verdictOf(ok1, err1), verdictOf(ok2, err2)
	if v1 != v2 {
		p.E.S.Fail(p.Tag+"/not-repeatable", p.Name, "matcher %s gave %s and then %s on the same %d bytes", p.Name, vname2(v1), vname2(v2), vis)
	}
	bl1, _, _ := layer4.VerifBufState(cx)
	if bl1 != bl0 || bufHash(layer4.VerifBufBytes(cx)) != h0 {
		p.E.S.Fail(p.Tag+"/buffer-changed", p.Name, "matcher %s changed the prefetch buffer (len %d -> %d)", p.Name, bl0, bl1)
	}
	if p.SockReads != nil {
		if after := p.SockReads(cx); after != before {
			p.E.S.Fail(p.Tag+"/network-read", p.Name, "matcher %s caused %d read(s) on the client socket while matching", p.Name, after-before)
		}
	}
	lk()
	p.Evals = append(p.Evals, PurityEval{Conn: cx.Conn.RemoteAddr().String(), Visible: vis, Verdict: v1, Alloc: alloc})
	ulk()
	p.E.S.Tracef("PM", p.Name, vis, v1)
	return ok1, err1
}

func vname2(v int) string { return [...]string{"no", "yes", "need-more", "error"}[v] }

type c06Sample struct {
	Matcher string   `json:"matcher"`
	Input   string   `json:"input_kind"`
	Len     int      `json:"message_len"`
	Trail   int      `json:"trailing_bytes"`
	OrSet   bool     `json:"ored_with_a_deciding_set,omitempty"`
	AndNot  bool     `json:"behind_a_not_in_the_same_set,omitempty"`
	History int      `json:"bytes_of_an_earlier_client_of_the_same_protocol,omitempty"`
	Hex     string   `json:"first_bytes"`
	Deliveries []string `json:"deliveries"`
	Outcomes []string `json:"outcomes"`
	Rounds  []int    `json:"matcher_rounds_per_delivery"`
}

func init() {
	register(&Prop{
		ID:   "C06",
		Rule: "each run picks a shipped stream matcher and configuration (default and filtered: tls with real crypto/tls ClientHellos, http/1 and h2, ssh, xmpp, postgres, proxy_protocol, socks4, socks5, regexp, rdp, dns-over-tcp, openvpn-tcp, winbox; UDP matchers for the purity clauses), a well-formed first message with trailing data or a structure-aware mutation of it, and delivers the same input several times to the real router: once whole, then under tape-chosen segmentations (incl. byte-by-byte heads and a split sweep for short messages). A wrapper around the matcher evaluates it twice per round, and watches the client socket and the prefetch buffer. Oracle: no socket reads during Match, buffer untouched, same verdict when repeated, and the same routing outcome under every segmentation as for whole delivery. Non-trivial: the matcher was evaluated on >=2 different prefix lengths; distinct: event-log hashes.",
		Run:  runC06,
	})
}

func runC06(t *testing.T, e *worlds.Env, tier string) (bool, any) {
	sample := &c06Sample{}
	var w *worlds.TCPWorld
	var uw *worlds.UDPWorld
	var pm *PurityMatcher
	type delivery struct {
		model   *worlds.ConnModel
		outcome string // matched / not-matched / aborted
		end     *simnet.End
	}
	var dels []*delivery
	driverDone := false
	var refBeforeOK, refBeforeSet bool
	var histMsg []byte
	udp := false
	e.Run(t, func() func() bool {
		tp := e.T
		yieldKnob(e)
		protos := gen.All()
		var cands []*gen.Proto
		for _, p := range protos {
			if p.Slow && p.Name != "quic" {
				continue
			}
			cands = append(cands, p)
		}
		p := cands[tp.Choose(len(cands), "proto")]
		udp = !p.TCP || (p.UDP && tp.Prob(1, 4, "udp"))
		ms, err := p.Matchers(e.Ctx)
		if err != nil || len(ms) == 0 {
			panic(fmt.Sprint("gen matchers: ", err))
		}
		for _, nm := range ms {
			if tm, ok := nm.M.(*l4tls.MatchTLS); ok {
				tm.VerifSetLogger(e.Log)
			}
		}
		nm := ms[0]
		if tp.Prob(1, 3, "filtered") {
			nm = ms[tp.Choose(len(ms), "config")]
		}
		sample.Matcher = nm.Name
		msg := p.Valid(tp, !udp)
		sample.Input = "valid"
		if tp.Prob(1, 5, "mutate") {
			msg = p.Mutate(tp, msg, !udp)
			sample.Input = "mutated"
		}
		trail := 0
		if !udp && !p.NoTrailing && tp.Prob(2, 3, "trailing") {
			trail = 1 + tp.LogRange(0, 6000, "trail")
			msg = append(append([]byte(nil), msg...), worlds.Stream(e.S.Seed+99, trail)...)
		}
		if len(msg) > 3*layer4.MaxMatchingBytes {
			msg = msg[:3*layer4.MaxMatchingBytes]
		}
		sample.Len, sample.Trail, sample.Hex = len(msg)-trail, trail, fmt.Sprintf("% x", head(msg, 24))
		pm = &PurityMatcher{E: e, Inner: nm.M, Name: nm.Name, Tag: "C06"}
		hit := &worlds.Consume{E: e, Name: "hit", K: 0, Tag: "C06", Sig: nm.Name}
		drain := layer4.NextHandlerFunc(func(cx *layer4.Connection, _ layer4.Handler) error {
			buf := make([]byte, 4096)
			for {
				if _, err := cx.Read(buf); err != nil {
					return nil
				}
			}
		})
		never := &worlds.SpecMatcher{E: e, ID: "never", Never: true}
		sets := []layer4.MatcherSet{{pm}}
		if tp.Prob(1, 4, "and-not") {
			// the matcher under test runs in a set behind a `not` (whose inner sets are evaluated
			// through the same set machinery on the same connection): it must still be evaluated in
			// matching mode - on the recorded bytes only
			no := &worlds.SpecMatcher{E: e, ID: "notinner", Fn: func(v []byte) int { return 0 }} // says no without a byte
			sets = []layer4.MatcherSet{{&layer4.MatchNot{MatcherSets: []layer4.MatcherSet{{no}}}, pm}}
			sample.AndNot = true
		} else if tp.Prob(1, 4, "or-set") {
			// the route ORs a second matcher set that can already say no: while the matcher under
			// test still asks for more data the route as a whole must keep asking too
			sets = append(sets, layer4.MatcherSet{&worlds.SpecMatcher{E: e, ID: "orno", Fn: func(v []byte) int {
				if len(v) < 1 {
					return 2
				}
				return 0
			}}})
			sample.OrSet = true
		}
		routes := layer4.RouteList{
			layer4.VerifNewRoute(sets, []layer4.NextHandler{hit, drain}),
			layer4.VerifNewRoute([]layer4.MatcherSet{{never}}, []layer4.NextHandler{drain}),
		}
		timeout := 2 * time.Second
		if udp {
			// purity / repeatability only: one datagram
			uw = e.NewUDPWorld(routes, timeout)
			addr := worlds.UDPClientAddr(1)
			m := &worlds.ConnModel{ID: 1, Addr: addr.String(), App: msg}
			e.Reg.Add(m)
			dels = append(dels, &delivery{model: m})
			if len(msg) > 9000 {
				msg = msg[:9000]
			}
			uw.StartClient(&worlds.UDPClientPlan{ID: 1, Addr: addr, Sends: []worlds.UDPSend{{Data: msg}}})
			sample.Deliveries = []string{"one datagram"}
			return uw.Done
		}
		w = e.NewTCPWorld(routes, timeout)
		byAddr := map[string]*simnet.End{}
		pm.SockReads = func(cx *layer4.Connection) int {
			lk()
			end := byAddr[cx.Conn.RemoteAddr().String()]
			ulk()
			if end == nil {
				return 0
			}
			s := end.Snapshot()
			return s.ReadCalls
		}
		if !udp && tp.Prob(1, 3, "history") {
			histMsg = p.Valid(tp, true)
			sample.History = len(histMsg)
		}
		if !udp && bytes.HasPrefix(msg, []byte("PRI * HTTP/2.0")) && tp.Prob(1, 2, "h2-history") {
			// an HTTP/2 client before an HTTP/2 client: header compression state is per connection
			histMsg = gen.HTTP2Valid(tp)
			sample.History = len(histMsg)
		}
		ndel := 2 + tp.Choose(3, "n-deliveries")
		type plan struct {
			chunks []worlds.Chunk
			cfg    simnet.Cfg
			desc   string
		}
		var plans []plan
		plans = append(plans, plan{chunks: []worlds.Chunk{{N: len(msg)}}, desc: "whole"})
		for i := 1; i < ndel; i++ {
			var pl plan
			switch tp.Weighted("frag-mode", 3, 3, 2, 2) {
			case 0: // client-level chunks
				pl.chunks = e.MakeChunks(len(msg), 15*time.Millisecond)
				pl.desc = fmt.Sprintf("%d client chunks", len(pl.chunks))
			case 1: // one split point (split sweep)
				k := 0
				if len(msg) > 1 {
					k = 1 + tp.Choose(len(msg)-1, "split-at")
				}
				pl.chunks = []worlds.Chunk{{N: k}, {N: len(msg) - k, Delay: time.Duration(tp.Choose(30, "split-delay-ms")) * time.Millisecond}}
				pl.desc = fmt.Sprintf("split at %d", k)
			case 2: // network-level segmentation
				pl.chunks = []worlds.Chunk{{N: len(msg)}}
				pl.cfg = simnet.Cfg{SegPermille: 1000, TricklePerm: tp.Pick("trickle", 0, 500), ShortReadPerm: tp.Pick("short", 0, 300), LatencyPerm: tp.Pick("lat", 0, 500), MaxLatency: 5 * time.Millisecond}
				pl.desc = "network segmentation"
			default: // byte by byte head
				hd := len(msg)
				if hd > 40 {
					hd = 40
				}
				for j := 0; j < hd; j++ {
					pl.chunks = append(pl.chunks, worlds.Chunk{N: 1, Delay: time.Duration(tp.Choose(3, "bb-delay")) * time.Millisecond})
				}
				if len(msg) > hd {
					pl.chunks = append(pl.chunks, worlds.Chunk{N: len(msg) - hd})
				}
				pl.desc = "byte-by-byte head"
			}
			plans = append(plans, pl)
		}
		for _, pl := range plans {
			sample.Deliveries = append(sample.Deliveries, pl.desc)
		}
		e.S.Go("driver", func() {
			defer func() {
				lk()
				driverDone = true
				ulk()
			}()
			// the verdict on the complete input before this process has seen any other input
			// (compared at the end with the verdict after everything else: it must not depend on
			// what other connections sent earlier)
			ca := worlds.ClientAddr(1)
			gen.FakeRemoteIP, gen.FakeRemotePort, gen.FakeLocalIP, gen.FakeLocalPort = ca.IP, ca.Port, net.ParseIP("10.0.0.1"), 443
			if ok, err := gen.MatchWhole(pm.Inner, msg, true); true {
				refBeforeOK, refBeforeSet = ok && err == nil, true // (an error is "not matched" for this comparison)
			}
			if histMsg != nil {
				// history: another client of the same protocol goes first
				addr := worlds.ClientAddr(90)
				e.Reg.Add(&worlds.ConnModel{ID: 90, Addr: addr.String(), App: histMsg})
				if end, err := e.N.Connect(w.Ln, "c90", addr); err == nil {
					lk()
					byAddr[addr.String()] = end.Peer()
					ulk()
					conn := end.Conn()
					_, _ = conn.Write(histMsg)
					time.Sleep(50 * time.Millisecond)
					_ = conn.(interface{ CloseWrite() error }).CloseWrite()
					buf := make([]byte, 512)
					for {
						if _, err := conn.Read(buf); err != nil {
							break
						}
					}
					_ = conn.Close()
				}
			}
			for i, pl := range plans {
				addr := worlds.ClientAddr(i + 1)
				m := &worlds.ConnModel{ID: i + 1, Addr: addr.String(), App: msg}
				e.Reg.Add(m)
				d := &delivery{model: m}
				lk()
				dels = append(dels, d)
				e.N.Cfg = pl.cfg
				ulk()
				end, err := e.N.Connect(w.Ln, fmt.Sprintf("c%d", i+1), addr)
				if err != nil {
					return
				}
				d.end = end
				lk()
				byAddr[addr.String()] = end.Peer()
				ulk()
				conn := end.Conn()
				off := 0
				for _, ch := range pl.chunks {
					if ch.Delay > 0 {
						time.Sleep(ch.Delay)
					}
					if ch.N == 0 {
						continue
					}
					if _, err := conn.Write(msg[off : off+ch.N]); err != nil {
						break
					}
					off += ch.N
				}
				// stay until the server closes the connection (matched: after drain sees our
				// EOF; not matched: when matching ends) - half-close tells a matched handler we are done
				time.Sleep(50 * time.Millisecond)
				_ = conn.(interface{ CloseWrite() error }).CloseWrite()
				buf := make([]byte, 512)
				for {
					if _, err := conn.Read(buf); err != nil {
						break
					}
				}
				_ = conn.Close()
			}
		})
		return func() bool {
			lk()
			d := driverDone
			ulk()
			return d && w.Done()
		}
	}, func() {
		if e.S.Capped || pm == nil {
			return
		}
		rounds := map[string]map[int]bool{}
		for _, ev := range pm.Evals {
			if rounds[ev.Conn] == nil {
				rounds[ev.Conn] = map[int]bool{}
			}
			rounds[ev.Conn][ev.Visible] = true
		}
		for _, d := range dels {
			sample.Rounds = append(sample.Rounds, len(rounds[d.model.Addr]))
			d.outcome = "not-matched"
			for _, hc := range d.model.HandlerCalls {
				if hc.Handler == "hit" {
					d.outcome = "matched"
				}
			}
			// last verdict seen for this delivery
			last := -1
			for _, ev := range pm.Evals {
				if ev.Conn == d.model.Addr {
					last = ev.Verdict
				}
			}
			if d.outcome == "not-matched" && last == 2 {
				d.outcome = "undecided" // matching ended (timeout / EOF) while the matcher still wanted more
			}
			if d.outcome == "not-matched" && last == 3 {
				d.outcome = "error"
			}
			sample.Outcomes = append(sample.Outcomes, d.outcome)
		}
		if udp || len(dels) < 2 {
			return
		}
		whole := dels[0].outcome
		// reference for "matches when delivered whole": the matcher evaluated directly on the
		// complete input (the router's first evaluation already sees a proper prefix: nothing)
		ca := worlds.ClientAddr(1) // the reference connection has the addresses of the first delivery
		gen.FakeRemoteIP, gen.FakeRemotePort, gen.FakeLocalIP, gen.FakeLocalPort = ca.IP, ca.Port, net.ParseIP("10.0.0.1"), 443
		// (only for messages that fit the matching buffer: beyond it the router gives up by design)
		okAfter, errAfter := gen.MatchWhole(pm.Inner, dels[0].model.App, true)
		if refBeforeSet && (okAfter && errAfter == nil) != refBeforeOK {
			e.S.Fail("C06/history-dependent", sample.Matcher, "input (%d bytes, first % x): %s answered matched=%v on the complete input before any other connection, and matched=%v on the same bytes after %d other evaluations (history connection: %v)",
				len(dels[0].model.App), head(dels[0].model.App, 16), sample.Matcher, refBeforeOK, okAfter, len(pm.Evals), histMsg != nil)
			return
		}
		if ok, err := okAfter, errAfter; ok && err == nil && sample.Len <= layer4.MaxMatchingBytes {
			if whole != "matched" {
				e.S.Fail("C06/fragment-reject", sample.Matcher, "input (%d bytes, first % x) matches %s when the whole message is buffered, but through the router (delivered in one write) it is %s: a proper prefix was answered with 'no' instead of 'need more'",
					len(dels[0].model.App), head(dels[0].model.App, 16), sample.Matcher, whole)
				return
			}
			whole = "matched"
		}
		for i, d := range dels[1:] {
			// a message that matches when delivered whole is never rejected when delivered in fragments
			if whole == "matched" && d.outcome != "matched" {
				e.S.Fail("C06/fragment-reject", sample.Matcher, "input (%d bytes, first % x) matches %s when delivered whole but is %s when delivered as '%s'",
					len(d.model.App), head(d.model.App, 16), sample.Matcher, d.outcome, sample.Deliveries[i+1])
				return
			}
		}
		// a verdict of 'no' on some prefix remains 'no' on every longer prefix: all
		// deliveries carry the same input, so evaluations are comparable by prefix length
		maxNo, minYesAfter := -1, -1
		histAddr := worlds.ClientAddr(90).String() // the history connection carries another input
		var evs []PurityEval
		for _, ev := range pm.Evals {
			if ev.Conn != histAddr {
				evs = append(evs, ev)
			}
		}
		for _, ev := range evs {
			if ev.Verdict == 0 && (maxNo < 0 || ev.Visible < maxNo) {
				maxNo = ev.Visible // the shortest prefix that was rejected
			}
		}
		if maxNo >= 0 {
			for _, ev := range evs {
				if ev.Verdict == 1 && ev.Visible > maxNo && (minYesAfter < 0 || ev.Visible < minYesAfter) {
					minYesAfter = ev.Visible
				}
			}
			if minYesAfter >= 0 {
				e.S.Fail("C06/no-then-yes", sample.Matcher, "%s answered 'no' on the first %d bytes of the input but 'yes' on the first %d bytes (first % x)",
					sample.Matcher, maxNo, minYesAfter, head(dels[0].model.App, 16))
			}
		}
	})
	nontrivial := false
	for _, r := range sample.Rounds {
		if r >= 2 {
			nontrivial = true
		}
	}
	return nontrivial, sample
}
