package props

import (
	"crypto/tls"
	"bytes"
	"fmt"
	"strings"
	"testing"
	"time"

	"github.com/mholt/caddy-l4/layer4"
	"github.com/caddyserver/caddy/v2/modules/caddyhttp/reverseproxy"
	"github.com/mholt/caddy-l4/modules/l4proxy"

	"verif/sim/gen"
	"verif/sim/simnet"
	"verif/sim/worlds"
)

type c08Sample struct {
	Conns    int            `json:"connections"`
	Classes  map[string]int `json:"classes"`
	Policy   string         `json:"proxy_policy"`
	Lens     []int          `json:"stream_lengths"`
	Upstream int            `json:"upstream_connections"`
	PoolReuse int           `json:"pooled_buffer_reuses"`
	OpenVPN  string         `json:"openvpn_matcher"`
}

func init() {
	register(&Prop{
		ID:   "C08",
		Rule: "each run opens 2..32 (64 in thorough) simultaneous connections with distinct position-coded streams through ONE shared configuration: routes selected by the first byte lead to a shared throttle (total limiter) + recorder, tee + echo, consume + subroute + recorder, a subroute that falls through to the handler after it, the proxy handler with a drawn selection policy over shared upstreams, and the real openvpn matcher (shared digest cache); buffers come from the deterministic poisoning pool. Oracle per connection: every handler/upstream/branch/echo sees exactly that connection's own stream (a foreign tag or poison is reported with both connections), and the route taken is the one its own bytes select. The same worlds (plus the listener-wrapper, load-balancing, UDP and relay worlds) are also run in a -race build under the same seeded scheduler, whose hand-offs are transparent to the detector; reports with both stacks in repository code are violations. Two more phases reuse other worlds under C08 tags: the listener-wrapper world judged for buffer integrity after hand-off, and the throttle world (1..16 connections through one throttle handler) judged for independence - with per-connection limits only, a read asking for n bytes reaches the socket at most n/rate after the connection's previous read returned, and a per-connection byte budget is usable by every connection. Non-trivial: >=2 connections overlapped in time; distinct: event-log hashes.",
		Run:  runC08,
		MaxSteps: 80000,
	})
}

func runC08(t *testing.T, e *worlds.Env, tier string) (bool, any) {
	sample := &c08Sample{Classes: map[string]int{}}
	var w *worlds.TCPWorld
	var ups *worlds.ProxyUps
	type cs struct {
		class  byte
		model  *worlds.ConnModel
		client *worlds.Client
	}
	var conns []*cs
	var who *whoRec
	ovIdx := 0
	e.Run(t, func() func() bool {
		tp := e.T
		e.N.Cfg = netKnobs(e)
		if e.N.Cfg.Window > 0 && e.N.Cfg.Window < 1500 {
			e.N.Cfg.Window = 1500
		}
		yieldKnob(e)
		b := &Builder{E: e, Tag: "C08"}
		sig := "shared"
		first := func(c byte) *worlds.SpecMatcher {
			return &worlds.SpecMatcher{E: e, ID: "m" + string(c), Fn: func(v []byte) int {
				if len(v) < 1 {
					return 2
				}
				if v[0] != c {
					return 0
				}
				return 1
			}}
		}
		hA := []HSpec{{Kind: "throttle", Name: "thr", Rate: 20000000, Burst: 32768}, {Kind: "recorder", Name: "recA", MaxBuf: tp.Pick("bufA", 4096, 1, 700)}}
		thr := b.Handler(&hA[0], sig)
		recA := b.Handler(&hA[1], sig)
		teeSpec := HSpec{Kind: "tee", Name: "tee", Branch: []HSpec{{Kind: "recorder", Name: "branchB", StartMark: "teemarkB", MaxBuf: 2048}}}
		markB := HSpec{Kind: "mark", Name: "teemarkB"}
		echoMark := HSpec{Kind: "mark", Name: "echoB"}
		echoH := HSpec{Kind: "echo", Name: "echo"}
		conK := tp.Pick("consume-k", 1, 5, 300)
		conC := HSpec{Kind: "consume", Name: "conC", K: conK}
		subC := HSpec{Kind: "subroute", Name: "subC", Sub: &RLSpec{Routes: []RSpec{{Sets: [][]MSpec{{{ID: "msub", Need: tp.Pick("sub-need", 1, 9, 2100), Kind: VYes, Mode: tp.Choose(4, "mode")}}},
			Handlers: []HSpec{{Kind: "recorder", Name: "recC", MaxBuf: 3000}}}}}}
		// proxy with shared upstreams
		ups = e.NewProxyUps()
		ups.ScriptFor = func(addr string, _ int) *worlds.UpScript {
			return &worlds.UpScript{Mode: worlds.UpEcho, AbortAt: -1, TLS: addr == "10.1.9.1:443"}
		}
		var pool l4proxy.UpstreamPool
		for i := 0; i < 3; i++ {
			addr := fmt.Sprintf("10.1.0.%d:80", i+1)
			ups.Add("tcp", addr, tp.Pick("dial-lat-ms", 0, 0, 3))
			pool = append(pool, &l4proxy.Upstream{Dial: []string{"tcp/" + addr}})
		}
		var pol l4proxy.Selector
		switch tp.Choose(5, "policy") {
		case 0:
			pol, sample.Policy = &l4proxy.RoundRobinSelection{}, "round_robin"
		case 1:
			pol, sample.Policy = &l4proxy.LeastConnSelection{}, "least_conn"
		case 2:
			pol, sample.Policy = &l4proxy.IPHashSelection{}, "ip_hash"
		case 3:
			rc := &l4proxy.RandomChoiceSelection{Choose: 2}
			pol, sample.Policy = rc, "random_choose"
		default:
			pol, sample.Policy = &l4proxy.RandomSelection{}, "random"
		}
		ph := &l4proxy.Handler{Upstreams: pool, LoadBalancing: &l4proxy.LoadBalancing{SelectionPolicy: pol}}
		if err := ph.Provision(e.Ctx); err != nil {
			panic(err)
		}
		ph.VerifSetLogger(e.Log)
		e.S.OnCleanup(func() { _ = ph.Cleanup() })
		// openvpn (shared digest cache)
		ov := gen.ByName("openvpn")
		ovMs, err := ov.Matchers(e.Ctx)
		if err != nil {
			panic(err)
		}
		recV := HSpec{Kind: "recorder", Name: "recV", MaxBuf: 4096}
		// the shared matcher instance: the default configuration (digest cache) or a keyed one
		// (HMAC / cipher state per key); with keys a generated client may legitimately not match
		ovIdx = tp.Pick("ovpn-config", 0, 5, 6, 8, 10)
		if ovIdx >= len(ovMs) {
			ovIdx = 0
		}
		sample.OpenVPN = ovMs[ovIdx].Name
		// TLS on both sides, transparent: the proxy's `tls` option without any customisation takes
		// server name and protocols for the upstream handshake from the client's own ClientHello
		tlsH := HSpec{Kind: "tls", Name: "tlsT"}
		who = &whoRec{e: e, by: map[string]int{}}
		ups.Add("tcp", "10.1.9.1:443", 0)
		pt := &l4proxy.Handler{Upstreams: l4proxy.UpstreamPool{&l4proxy.Upstream{Dial: []string{"tcp/10.1.9.1:443"}, TLS: &reverseproxy.TLSConfig{}}}}
		if err := pt.Provision(e.Ctx); err != nil {
			panic(err)
		}
		pt.VerifSetLogger(e.Log)
		e.S.OnCleanup(func() { _ = pt.Cleanup() })
		// a subroute whose inner route is not terminal: the connection falls through it to the
		// handler after the subroute (the continuation is per connection)
		conEk := tp.Pick("consume-e", 1, 4, 11)
		subE := HSpec{Kind: "subroute", Name: "subE", Sub: &RLSpec{Routes: []RSpec{{Handlers: []HSpec{{Kind: "consume", Name: "conE", K: conEk}}}}}}
		recE := HSpec{Kind: "recorder", Name: "recE", MaxBuf: 2048}
		// a wrapping handler (proxy_protocol: the header starts with 'P') and, behind it, matching on the
		// wrapped connection that outgrows the first prefetch chunk: the wrapped connection starts on
		// its parent's drained matching buffer and replaces it while the parent still refers to it
		ppP := HSpec{Kind: "pp", Name: "ppP"}
		ppDone := HSpec{Kind: "ppmark", Name: "ppdoneP"}
		subP := HSpec{Kind: "subroute", Name: "subP", Sub: &RLSpec{Routes: []RSpec{{Sets: [][]MSpec{{{ID: "msubP", Need: tp.Pick("subp-need", 3000, 2049, 5000, 10), Kind: VYes, Mode: tp.Choose(4, "mode")}}},
			Handlers: []HSpec{{Kind: "recorder", Name: "recP", MaxBuf: 3000}}}}}}
		routes := layer4.RouteList{
			layer4.VerifNewRoute([]layer4.MatcherSet{{first('P')}}, []layer4.NextHandler{b.Handler(&ppP, sig), b.Handler(&ppDone, sig), b.Handler(&subP, sig)}),
			layer4.VerifNewRoute([]layer4.MatcherSet{{first('A')}}, []layer4.NextHandler{thr, recA}),
			layer4.VerifNewRoute([]layer4.MatcherSet{{first('B')}}, []layer4.NextHandler{b.Handler(&markB, sig), b.Handler(&teeSpec, sig), b.Handler(&echoMark, sig), b.Handler(&echoH, sig)}),
			layer4.VerifNewRoute([]layer4.MatcherSet{{first('C')}}, []layer4.NextHandler{b.Handler(&conC, sig), b.Handler(&subC, sig)}),
			layer4.VerifNewRoute([]layer4.MatcherSet{{first('D')}}, []layer4.NextHandler{ph}),
			layer4.VerifNewRoute([]layer4.MatcherSet{{ovMs[ovIdx].M}}, []layer4.NextHandler{b.Handler(&recV, sig)}),
			// the subroute ends its route; the stream as it left it (next byte 'e') selects the next route
			layer4.VerifNewRoute([]layer4.MatcherSet{{first('E')}}, []layer4.NextHandler{b.Handler(&subE, sig)}),
			layer4.VerifNewRoute([]layer4.MatcherSet{{first('e')}}, []layer4.NextHandler{b.Handler(&recE, sig)}),
			layer4.VerifNewRoute([]layer4.MatcherSet{{first(0x16)}}, []layer4.NextHandler{b.Handler(&tlsH, sig), who, pt}),
		}
		w = e.NewTCPWorld(routes, 0)
		maxN := 32
		if tier == "thorough" {
			maxN = 64
		}
		n := 2 + tp.LogRange(0, maxN-2, "nconn")
		sample.Conns = n
		classes := []byte{'A', 'B', 'C', 'D', 'V', 'Z', 'E', 'T', 'P'}
		for i := 1; i <= n; i++ {
			cls := classes[tp.Choose(len(classes), "class")]
			plan := &worlds.ClientPlan{ID: i, Addr: worlds.ClientAddr(i), End: worlds.EndHalfClose}
			plan.StartAt = time.Duration(tp.Choose(4, "start-ms")) * time.Millisecond
			m := &worlds.ConnModel{ID: i, Key: e.S.Seed*1009 + uint64(i), Addr: plan.Addr.String()}
			ln := 12 + tp.LogRange(0, 6000, "len") // >= 12 bytes: a stream is identifiable from its content
			if cls == 'T' {
				plan.TLS = &tls.Config{InsecureSkipVerify: true, ServerName: fmt.Sprintf("c%d.sim.test", i)}
				m.App = worlds.Stream(m.Key, ln)
			} else if cls == 'V' {
				m.App = ov.Valid(tp, true)
			} else {
				m.App = worlds.Stream(m.Key, ln)
				m.App[0] = cls
				if cls == 'E' {
					m.App[conEk] = 'e'
				}
			}
			if cls == 'P' {
				if len(m.App) < 5200 {
					m.App = worlds.Stream(m.Key, 5200+tp.Choose(3000, "len-p"))
				}
				hd := PPHeader{Version: 1, Src: simnet.TCPAddr("192.0.2.9", 7000+i), Dst: simnet.TCPAddr("198.51.100.1", 443)}
				plan.Pre = hd.Encode()
				plan.App = m.App // (the client sends Pre, then App)
				m.Pre = plan.Pre
				m.App = append(append([]byte(nil), plan.Pre...), m.App...)
				e.Reg.Alias(hd.Src.String(), m)
			} else {
				plan.App = m.App
			}
			plan.Chunks = e.MakeChunks(len(plan.App), 3*time.Millisecond)
			e.Reg.Add(m)
			c := &cs{class: cls, model: m}
			c.client = e.StartClient(w.Ln, plan, m)
			w.Clients = append(w.Clients, c.client)
			conns = append(conns, c)
			sample.Classes[string(cls)]++
			sample.Lens = append(sample.Lens, len(m.App))
		}
		return func() bool {
			if !w.Done() {
				return false
			}
			for _, r := range ups.RecsSnapshot() {
				if !r.Done {
					return false
				}
			}
			return true
		}
	}, func() {
		sample.PoolReuse = e.Pool.Reuses
		if e.S.Capped {
			return
		}
		sig := "shared"
		fail := func(kind, format string, a ...any) { e.S.Fail("C08/"+kind, sig, format, a...) }
		recs := ups.RecsSnapshot()
		sample.Upstream = len(recs)
		owner := func(p []byte) *worlds.ConnModel {
			for _, c := range conns {
				if len(p) <= len(c.model.App) && bytes.Equal(c.model.App[:len(p)], p) {
					return c.model
				}
			}
			return nil
		}
		usedBy := map[int]int{}
		for _, r := range recs {
			if len(r.Received) == 0 {
				continue
			}
			m := owner(r.Received)
			if m == nil {
				fail("cross-talk", "upstream connection %s#%d received %d bytes that are not the prefix of any single client's stream (first % x)", r.Addr, r.Idx, len(r.Received), head(r.Received, 12))
				return
			}
			usedBy[m.ID]++
		}
		// TLS upstream connections: the server name offered upstream is the one this client offered
		for _, r := range recs {
			if r.Addr != "10.1.9.1:443" || r.SNI == "" {
				continue
			}
			id, ok := who.by[r.By]
			if !ok {
				continue
			}
			if want := fmt.Sprintf("c%d.sim.test", id); r.SNI != want {
				fail("cross-talk", "the upstream TLS handshake made for conn %d offered server name %q; that client offered %q (the name belongs to another connection)", id, r.SNI, want)
				return
			}
			e.S.Stats["probe_transparent_tls_upstream_handshake"]++
		}
		for _, c := range conns {
			if c.class == 'T' {
				continue
			}
			m := c.model
			ran := map[string]bool{}
			for _, hc := range m.HandlerCalls {
				ran[hc.Handler] = true
			}
			want := map[byte]string{'A': "recA", 'B': "echoB", 'C': "conC", 'V': "recV", 'E': "recE", 'P': "recP"}[c.class]
			connected := c.client.End != nil && c.client.WriteErr == nil
			if !connected {
				continue
			}
			for h := range ran {
				ok := h == want || (c.class == 'B' && (h == "teemarkB" || h == "branchB")) || (c.class == 'C' && h == "recC") || (c.class == 'E' && h == "conE") || (c.class == 'P' && h == "ppdoneP")
				if !ok {
					fail("misrouted", "conn %d (first byte %q) was handled by %s; alone it is handled by %q", m.ID, c.class, h, want)
					return
				}
			}
			if c.class == 'V' && ovIdx != 0 {
				want = "" // keyed configuration: the generated client need not verify
			}
			if want != "" && !ran[want] && len(m.App) > 0 {
				fail("misrouted", "conn %d (first byte %q) never reached its handler %s (handlers that ran: %v)", m.ID, c.class, want, keys(ran))
				return
			}
			switch c.class {
			case 'B', 'D':
				// echoed back: own stream, complete
				rcv := c.client.Received
				if len(rcv) > len(m.App) || !bytes.Equal(rcv, m.App[:len(rcv)]) {
					other := ""
					for _, o := range conns {
						if o != c && len(rcv) >= 8 && bytes.Contains(o.model.App, head(rcv, 8)) {
							other = fmt.Sprintf(" (bytes of conn %d)", o.model.ID)
						}
					}
					fail("cross-talk", "conn %d (class %c) got back %d bytes that are not its own stream%s", m.ID, c.class, len(rcv), other)
					return
				}
				if c.client.RecvEOF && len(rcv) != len(m.App) {
					fail("lost-bytes", "conn %d (class %c) sent %d bytes and got back %d before EOF", m.ID, c.class, len(m.App), len(rcv))
					return
				}
				if c.class == 'D' && usedBy[m.ID] != 1 {
					fail("misrouted", "conn %d (proxied) reached %d upstream connections, expected exactly 1", m.ID, usedBy[m.ID])
					return
				}
			}
		}
	})
	return sample.Conns >= 2, sample
}

func keys(m map[string]bool) string {
	var ks []string
	for k := range m {
		ks = append(ks, k)
	}
	return strings.Join(ks, ",")
}


// whoRec notes which handler goroutine serves which client (by the client's address).
type whoRec struct {
	e  *worlds.Env
	by map[string]int
}

func (w *whoRec) Handle(cx *layer4.Connection, next layer4.Handler) error {
	if m := w.e.Reg.Lookup(cx.RemoteAddr()); m != nil {
		g := w.e.S.Name()
		lk()
		w.by[g] = m.ID
		ulk()
	}
	return next.Handle(cx)
}
