package props

import (
	"github.com/caddyserver/caddy/v2"
	"bytes"
	"crypto/tls"
	"fmt"
	"strings"
	"testing"
	"time"

	"github.com/mholt/caddy-l4/layer4"
	"github.com/caddyserver/caddy/v2/modules/caddyhttp/reverseproxy"
	"github.com/mholt/caddy-l4/modules/l4proxy"
	"github.com/mholt/caddy-l4/modules/l4tee"

	"verif/sim/simnet"
	"verif/sim/worlds"
)

type c03Sample struct {
	Wrappers  string   `json:"handlers_before_proxy"`
	Matcher   int      `json:"matcher_need"`
	Consume   int      `json:"consumed_before_proxy"`
	Peers     int      `json:"peers_in_upstream"`
	Scripts   []string `json:"upstream_scripts"`
	AppLen    int      `json:"client_bytes"`
	ClientEnd string   `json:"client_end"`
	Faulty    bool     `json:"fault_config"`
	TLSUp     bool     `json:"tls_to_upstream"`
	DialFault string   `json:"dial_fault,omitempty"`
	Net       simnet.Cfg `json:"net"`
	UpRecv    []int    `json:"upstream_received"`
	UpSent    []int    `json:"upstream_sent"`
	CliRecv   int      `json:"client_received"`
	Returned  string   `json:"handler_returned_at"`
	Left      []string `json:"goroutines_left"`
}

func init() {
	register(&Prop{
		ID:   "C03",
		Rule: "each run puts the real proxy handler behind an optional matcher (prefetched bytes), consume-k and wrapping handlers (throttle, proxy_protocol, tls), optionally TLS towards the upstreams (the proxy's tls option; half-close as close_notify), with 1..3 peers in the selected upstream scripted as sink / echo / source / reply-after-EOF / duplex, position-coded payloads both ways (0..~100KB, 1MiB in thorough), all chunkings, windows and latencies, and the order of half-closes (client first, upstream first while the client keeps sending, full close); a separate fault configuration adds client/upstream resets and stalls. One run in eight is the datagram variant: the real UDP server loop in front of the proxy dialling simulated UDP upstreams (1..2 peers, sink or echo), datagram loss/duplication/reordering, gaps beyond the idle timeout (fresh association, fresh upstream connections); every connection of a peer receives a contiguous in-order run of the client's arrivals, nothing is lost except in an ending association, replies return to the client, every upstream connection is closed and every handler returns. Oracle: reference streams both ways, EOF propagation while the other direction still flows, handler return, closure of every upstream connection, goroutine census, bounded liveness. Non-trivial: both directions carried data or a half-close was propagated; distinct: event-log hashes.",
		Run:  runC03,
		MaxSteps: 60000,
	})
}

func runC03(t *testing.T, e *worlds.Env, tier string) (bool, any) {
	if e.T.Prob(1, 8, "udp-relay") {
		return runC03UDP(t, e, tier)
	}
	sample := &c03Sample{}
	var w *worlds.TCPWorld
	var cl *worlds.Client
	var model *worlds.ConnModel
	var ups *worlds.ProxyUps
	var scripts []*worlds.UpScript
	var addrs []string
	faulty := false
	dialFaultOn := false
	tlsUp := false
	wrappers := ""
	clientEndName := ""
	var rs *worlds.RecSelector
	ppSend := ""
	e.Run(t, func() func() bool {
		tp := e.T
		e.N.Cfg = netKnobs(e)
		if e.N.Cfg.Window > 0 && e.N.Cfg.Window < 1500 {
			e.N.Cfg.Window = 1500
		}
		yieldKnob(e)
		faulty = tp.Prob(1, 4, "fault-config")
		maxLen := 100000
		if tier == "thorough" {
			maxLen = 1 << 20
		}
		appLen := tp.LogRange(0, maxLen, "app-len")
		npeers := 1 + tp.Weighted("npeers", 7, 2, 1)
		wrapKind := tp.Weighted("wrap", 6, 2, 2, 2, 2)
		if wrapKind == 3 {
			// two relay goroutines writing to one tls.Conn contend on its internal
			// sync.Mutex, which testing/synctest cannot see (the bubble would never
			// quiesce): TLS termination is explored with a single peer only
			npeers = 1
		}
		// TLS towards the upstreams (the proxy's `tls` option): half-close travels as close_notify
		tlsUp = tp.Prob(1, 6, "tls-upstream")
		ups = e.NewProxyUps()
		for i := 0; i < npeers; i++ {
			addr := fmt.Sprintf("10.1.0.%d:80", i+1)
			addrs = append(addrs, addr)
			ups.Add("tcp", addr, tp.Pick("dial-lat-ms", 0, 0, 5, 200))
			sc := &worlds.UpScript{Tag: byte(i), Key: e.S.Seed*53 + uint64(i), AbortAt: -1, TLS: tlsUp}
			if tlsUp && tp.Prob(1, 2, "tls12-upstream") {
				sc.TLSMaxVersion = tls.VersionTLS12
			}
			modes := []int{worlds.UpSink, worlds.UpSource, worlds.UpReplyAtEOF, worlds.UpDuplex, worlds.UpEcho}
			if npeers > 1 {
				modes = modes[:4]
			}
			sc.Mode = modes[tp.Choose(len(modes), "up-mode")]
			if sc.Mode != worlds.UpSink && sc.Mode != worlds.UpEcho {
				sc.SendLen = tp.LogRange(0, maxLen, "up-send")
				sc.SendChunks = e.MakeChunks(sc.SendLen, 10*time.Millisecond)
			}
			// an upstream that closes its whole connection while the client is still
			// sending is a fault (the relay to the other peers is cut short too)
			sc.NoCloseWrite = faulty && tp.Prob(1, 3, "up-noclosewrite")
			if faulty && tp.Prob(1, 3, "up-abort") {
				sc.AbortAt = tp.Range(0, appLen, "up-abort-at")
			}
			if faulty && tp.Prob(1, 4, "up-stall") {
				sc.StallBeforeRead = time.Duration(tp.Pick("up-stall-ms", 10, 1000, 20000)) * time.Millisecond
			}
			scripts = append(scripts, sc)
			sample.Scripts = append(sample.Scripts, fmt.Sprintf("%s mode=%d send=%d", addr, sc.Mode, sc.SendLen))
		}
		ups.ScriptFor = func(addr string, idx int) *worlds.UpScript {
			for i, a := range addrs {
				if a == addr {
					return scripts[i]
				}
			}
			return &worlds.UpScript{Mode: worlds.UpSink, AbortAt: -1}
		}
		var dials []string
		for _, a := range addrs {
			dials = append(dials, "tcp/"+a)
		}
		// dial fault: one peer of the group (mostly the last) refuses connections for a while; the attempt fails
		// after the earlier peers were connected, and a retry within try_duration succeeds. Every
		// connection of every attempt has to be closed.
		dialFault := npeers > 1 && !tlsUp && tp.Prob(1, 4, "dial-fault")
		dialFaultOn = dialFault
		var tryDur time.Duration
		if dialFault {
			faulty = true
			// (the last peer in one run of two: the peers before it are connected when the attempt
			// fails; otherwise any peer - the peers after it may be dialled all the same)
			lastAddr := addrs[len(addrs)-1]
			if tp.Prob(1, 2, "dial-fault-any-peer") {
				lastAddr = addrs[tp.Choose(len(addrs), "dial-fault-peer")]
			}
			ups.Ups[lastAddr].SetState(simnet.Refuse)
			back := time.Duration(tp.Pick("peer-back-ms", 30, 200, 5000)) * time.Millisecond
			tryDur = 1 * time.Second
			e.S.Go("peerback", func() {
				time.Sleep(back)
				e.S.Park("peerback")
				ups.Ups[lastAddr].SetState(simnet.Up)
				e.S.Stat("fault_upstream_state_change", 1)
			})
			sample.DialFault = fmt.Sprintf("peer %s refuses connections until %v; try_duration %v", lastAddr, back, tryDur)
		}
		rs = &worlds.RecSelector{E: e, Inner: &l4proxy.FirstSelection{}}
		up0 := &l4proxy.Upstream{Dial: dials}
		if tlsUp {
			up0.TLS = &reverseproxy.TLSConfig{InsecureSkipVerify: true}
		}
		h := &l4proxy.Handler{
			Upstreams:     l4proxy.UpstreamPool{up0},
			LoadBalancing: &l4proxy.LoadBalancing{SelectionPolicy: rs, TryDuration: caddy.Duration(tryDur), TryInterval: caddy.Duration(20 * time.Millisecond)},
		}
		// wave 12: in two runs of five the proxy also sends a PROXY header to every upstream (the
		// `proxy_protocol` option): the relay, its half-close and its cleanup are the same behind it.
		// (Derived from the run seed, not drawn: the tapes of earlier replays stay valid. Not with an
		// echoing upstream, which would send the header back to the client.)
		if !tlsUp {
			echoes := false
			for _, sc := range scripts {
				echoes = echoes || sc.Mode == worlds.UpEcho
			}
			if !echoes {
				switch e.S.Seed % 5 {
				case 0:
					ppSend = "v1"
				case 1:
					ppSend = "v2"
				}
			}
		}
		h.ProxyProtocol = ppSend
		sample.DialFault += map[bool]string{true: " proxy_protocol=" + ppSend, false: ""}[ppSend != ""]
		if err := h.Provision(e.Ctx); err != nil {
			panic(err)
		}
		h.VerifSetLogger(e.Log)
		e.S.OnCleanup(func() { _ = h.Cleanup() })

		b := &Builder{E: e, Tag: "C03"}
		plan := &worlds.ClientPlan{ID: 1, Addr: worlds.ClientAddr(1)}
		model = &worlds.ConnModel{ID: 1, Key: e.S.Seed*7 + 1, Addr: plan.Addr.String()}
		model.App = worlds.Stream(model.Key, appLen)
		plan.App = model.App
		var hs []layer4.NextHandler
		var sets []layer4.MatcherSet
		need := 0
		if tp.Prob(1, 2, "matcher") {
			need = tp.Pick("need", 1, 4, 300, 2049, 5000, 8000)
			if need > appLen {
				need = appLen
			}
			if need > 0 {
				sets = []layer4.MatcherSet{{&worlds.SpecMatcher{E: e, ID: "m", Need: need, Mode: tp.Choose(4, "mode"), Yes: func([]byte) bool { return true }}}}
			}
		}
		sample.Matcher = need
		// wrapping handlers in front of the proxy
		switch wrapKind {
		case 1:
			wrappers = "throttle"
			th := HSpec{Kind: "throttle", Name: "thr", Rate: 50000000, Burst: 65536}
			hs = append(hs, b.Handler(&th, "x"))
		case 2:
			wrappers = "pp"
			hd := PPHeader{Version: 1 + tp.Choose(2, "pp-ver"), Src: simnet.TCPAddr("192.0.2.77", 4242), Dst: simnet.TCPAddr("198.51.100.1", 443)}
			// headers that declare no addresses (v2 LOCAL, v1 UNKNOWN / v2 UNSPEC) are consumed all the same
			switch tp.Weighted("pp-kind", 4, 1, 1) {
			case 1:
				hd.Version, hd.Local = 2, true
				wrappers = "pp-local"
			case 2:
				hd.Unknown = true
				wrappers = "pp-unknown"
			}
			plan.Pre = hd.Encode()
			model.Pre = plan.Pre
			model.App = append(append([]byte(nil), plan.Pre...), model.App...)
			if hd.Local || hd.Unknown {
				e.Reg.Alias(":0", model) // the library reports ":0" for v1 UNKNOWN
			} else {
				e.Reg.Alias(hd.Src.String(), model)
			}
			ph := HSpec{Kind: "pp", Name: "pp"}
			pm := HSpec{Kind: "ppmark", Name: "ppdone"}
			hs = append(hs, b.Handler(&ph, "x"), b.Handler(&pm, "x"))
			sets = nil // the matcher would count header bytes
			sample.Matcher = 0
		case 3:
			wrappers = "tls"
			plan.TLS = &tls.Config{InsecureSkipVerify: true, ServerName: "a.sim.test"}
			thh := HSpec{Kind: "tls", Name: "tls"}
			hs = append(hs, b.Handler(&thh, "x"))
			sets = nil
			sample.Matcher = 0
		case 4:
			// tee in front of the proxy: the branch only drains its copy
			wrappers = "tee"
			drain := layer4.NextHandlerFunc(func(cx *layer4.Connection, _ layer4.Handler) error {
				// (reads through tee's pipe are no interception points: the branch parks before each
				// read and before it ends, so that its progress and its exit are scheduler steps)
				buf := make([]byte, 4096)
				for {
					e.S.Park("teedrain")
					if _, err := cx.Read(buf); err != nil {
						e.S.Park("teedrain.end")
						return nil
					}
				}
			})
			hs = append(hs, l4tee.VerifNew([]layer4.NextHandler{drain}, e.Log))
		}
		sample.Wrappers = wrappers
		sig := "wrap=" + wrappers
		if wrappers == "" {
			sig = "wrap=none"
		}
		if tp.Prob(1, 3, "consume") {
			k := tp.LogRange(0, 3000, "consume-k")
			if k > appLen {
				k = appLen
			}
			cs := HSpec{Kind: "consume", Name: "con", K: k}
			hs = append(hs, b.Handler(&cs, sig))
			sample.Consume = k
		}
		mk := HSpec{Kind: "vmark", Name: "P0"}
		hs = append(hs, b.Handler(&mk, sig), h)
		routes := layer4.RouteList{layer4.VerifNewRoute(sets, hs)}
		plan.Chunks = e.MakeChunks(appLen, 10*time.Millisecond)
		canWait := false
		for _, sc := range scripts {
			if sc.Mode == worlds.UpSource || sc.Mode == worlds.UpDuplex {
				canWait = true
			} else {
				canWait = false
				break
			}
		}
		switch {
		case faulty && tp.Prob(1, 2, "client-abort"):
			plan.End = worlds.EndAbort
			plan.AbortAt = tp.Range(0, appLen, "abort-at")
			clientEndName = "abort"
		case canWait && tp.Prob(1, 2, "wait-eof"):
			plan.End = worlds.EndWaitEOF
			plan.WaitEOFAfter = tp.Range(0, appLen, "wait-after")
			clientEndName = "upstream-closes-first"
		case tp.Prob(1, 6, "full-close"):
			plan.End = worlds.EndClose
			clientEndName = "close"
		default:
			plan.End = worlds.EndHalfClose
			clientEndName = "half-close"
		}
		e.Reg.Add(model)
		w = e.NewTCPWorld(routes, 0)
		cl = e.StartClient(w.Ln, plan, model)
		w.Clients = append(w.Clients, cl)
		sample.Peers, sample.AppLen, sample.ClientEnd, sample.Faulty, sample.Net = npeers, appLen, clientEndName, faulty, e.N.Cfg
		sample.TLSUp = tlsUp
		return func() bool {
			if !w.Done() {
				return false
			}
			for _, r := range ups.RecsSnapshot() {
				if !r.Done {
					return false
				}
			}
			return len(c03Left(e, wrappers)) == 0
		}
	}, func() {
		sig := "wrap=" + wrappers
		if wrappers == "" {
			sig = "wrap=none"
		}
		fail := func(kind, format string, a ...any) { e.S.Fail("C03/"+kind, sig, format, a...) }
		recs := ups.RecsSnapshot()
		if ppSend != "" {
			// what an upstream received starts with the PROXY header (judged by C12); the relay
			// oracles look at what follows it
			var stripped []*worlds.UpConnRec
			for _, r := range recs {
				c := *r
				if len(c.Received) > 0 {
					n, _, _, _, _, err := ParsePP(c.Received)
					if err != nil || n > len(c.Received) {
						return // a connection cut inside the header (or no header: C12's subject): nothing to judge behind it
					}
					c.Received = c.Received[n:]
				}
				stripped = append(stripped, &c)
			}
			recs = stripped
		}
		off := -1
		for _, hc := range model.HandlerCalls {
			if hc.Handler == "P0" {
				off = hc.Offset
			}
		}
		for _, r := range recs {
			sample.UpRecv = append(sample.UpRecv, len(r.Received))
			sample.UpSent = append(sample.UpSent, r.Sent)
		}
		sample.CliRecv = len(cl.Received)
		if tlsUp && len(recs) > 0 && len(recs[0].Received) > 0 {
			e.S.Stats["probe_tls_upstream_carried_data"]++
		}
		if ex, ok := e.S.ExitAt["srv.1"]; ok {
			sample.Returned = ex.String()
		}
		left := c03Left(e, wrappers)
		sample.Left = left
		if off < 0 {
			return // the proxy handler was never reached (matching failed / client gone)
		}
		exp := model.App[off:]
		// client -> upstreams: prefix invariant always
		for _, r := range recs {
			if len(r.Received) > len(exp) || !bytes.Equal(r.Received, exp[:len(r.Received)]) {
				fail("upstream-stream", "upstream %s received %d bytes that are not a prefix of the client's stream from offset %d (want % x got % x)",
					r.Addr, len(r.Received), off, head(exp, 12), head(r.Received, 12))
				return
			}
		}
		// upstreams -> client: per tag subsequences
		var per [4][]byte
		for _, bt := range cl.Received {
			per[bt>>6] = append(per[bt>>6], bt)
		}
		for i, sc := range scripts {
			got := per[i]
			if sc.Mode == worlds.UpEcho {
				// echo: the client gets its own bytes back (single peer only)
				got = cl.Received
				if len(got) > len(exp) || !bytes.Equal(got, exp[:len(got)]) {
					fail("client-stream", "client received %d echoed bytes that are not a prefix of what it sent from offset %d", len(got), off)
					return
				}
				continue
			}
			for j, bt := range got {
				if j >= sc.SendLen || bt != worlds.UpByte(sc.Tag, sc.Key, j) {
					fail("client-stream", "client received byte %d of upstream %s's stream wrong/out of order (got %02x; upstream sent %d bytes)", j, addrs[i], bt, sc.SendLen)
					return
				}
			}
		}
		for i := len(scripts); i < 4; i++ {
			if len(per[i]) > 0 && !(len(scripts) == 1 && scripts[0].Mode == worlds.UpEcho) {
				fail("client-stream", "client received %d bytes that no upstream sent", len(per[i]))
				return
			}
		}
		if e.S.Capped {
			// bounded liveness: with every peer finished, the handler must have returned
			allDone := cl.Finished()
			for _, r := range recs {
				if !r.Done {
					allDone = false
				}
			}
			stuckClient := cl.WaitingEOF
			upFinishedSending := len(recs) > 0
			for _, r := range recs {
				if r.Script.SendLen > 0 && r.SentAllAt == 0 && r.Sent < r.Script.SendLen {
					upFinishedSending = false
				}
			}
			if e.S.CappedBy == "time" && !faulty {
				switch {
				case stuckClient && upFinishedSending:
					fail("half-close-not-propagated", "every upstream finished sending and closed its write side, but the client (still sending) never observed end-of-stream; handler goroutines alive: %v", left)
				case allDone && len(left) > 0:
					fail("handler-stuck", "client and upstreams are done but the handler has not returned; goroutines alive: %v", left)
				}
			}
			if e.S.CappedBy == "time" && faulty && allDone && len(left) > 0 {
				fail("handler-stuck", "fault configuration: both peers are gone but the handler has not returned; goroutines alive: %v", left)
			}
			// a client that is gone (reset) has finished sending: every upstream must observe
			// end-of-stream or be closed, and the handler must return
			if e.S.CappedBy == "time" && model.Aborted && cl.Finished() && len(left) > 0 {
				waiting, blockedWriting := 0, false
				for _, r := range recs {
					if !r.Done && r.Script.StallBeforeRead == 0 {
						waiting++
						if r.InWrite {
							blockedWriting = true
						}
					}
				}
				if waiting > 0 {
					// the signature names the history: whether flow control was involved
					sig = fmt.Sprintf("client-reset finite-window=%v upstream-blocked-in-write=%v", e.N.Cfg.Window > 0, blockedWriting)
					fail("upstream-not-released", "the client reset its connection at offset %d, but %d upstream(s) never observed end-of-stream and the handler never returned (goroutines alive: %v)", cl.Wrote, waiting, left)
				}
			}
			return
		}
		// the run completed: censuses
		if len(left) > 0 {
			fail("goroutine-left", "handler goroutines still alive after the handler's connection ended: %v", left)
		}
		for _, r := range recs {
			if r.End != nil && !r.End.Peer().IsClosed() {
				fail("upstream-not-closed", "the connection the handler opened to %s was never closed", r.Addr)
			}
		}
		if faulty && !dialFaultOn && !model.Aborted && len(scripts) > 1 && cl.RecvEOF && (cl.Plan.End == worlds.EndHalfClose || cl.Plan.End == worlds.EndWaitEOF) {
			// a fault of one peer must not cut what the other peers send to the client: a peer that
			// did not fault itself, sent everything and half-closed gets all of it through
			for i, sc := range scripts {
				if sc.AbortAt >= 0 || sc.NoCloseWrite || sc.Mode == worlds.UpEcho || sc.Mode == worlds.UpSink || sc.SendLen == 0 {
					continue
				}
				for _, r := range recs {
					if r.Script == sc && r.SendErr == nil && r.Sent == sc.SendLen && r.SentAllAt > 0 && len(per[i]) != sc.SendLen && (sc.Mode != worlds.UpReplyAtEOF || r.SawEOF) {
						fail("client-short", "upstream %s (which did not fault) sent %d bytes and half-closed; the client read EOF after only %d of them (another peer of the group had failed)", r.Addr, sc.SendLen, len(per[i]))
						return
					}
				}
			}
		}
		if faulty || model.Aborted {
			return
		}
		// fault-free: completeness
		for _, r := range recs {
			if r.Script.AbortAt >= 0 {
				return
			}
		}
		graceful := cl.Plan.End == worlds.EndHalfClose || cl.Plan.End == worlds.EndWaitEOF
		if cl.WriteErr == nil && model.WroteAll && graceful {
			for _, r := range recs {
				if !r.SawEOF {
					continue // this upstream stopped reading before the end of the stream (its script closed first)
				}
				if len(r.Received) != len(exp) {
					fail("upstream-short", "client sent %d bytes from offset %d and closed gracefully; upstream %s received only %d", len(exp), off, r.Addr, len(r.Received))
				}
			}
		}
		if cl.RecvEOF {
			for i, sc := range scripts {
				if sc.Mode == worlds.UpEcho || i >= len(recs) {
					continue
				}
				// find this script's record
				for _, r := range recs {
					if r.Script == sc && !sc.NoCloseWrite && graceful && r.SendErr == nil && r.Sent == sc.SendLen && len(per[i]) != sc.SendLen && (sc.Mode != worlds.UpReplyAtEOF || r.SawEOF) {
						fail("client-short", "upstream %s sent %d bytes; the client read EOF after only %d of them", r.Addr, sc.SendLen, len(per[i]))
					}
				}
			}
		}
	})
	nontrivial := sample.CliRecv > 0 && len(sample.UpRecv) > 0 && sample.UpRecv[0] > 0
	if strings.Contains(sample.ClientEnd, "first") || sample.ClientEnd == "half-close" {
		nontrivial = nontrivial || len(sample.UpRecv) > 0
	}
	_ = rs
	return nontrivial, sample
}

// c03Left lists the goroutines of the connection handler that are still alive. The branch
// goroutine of a tee handler in front of the proxy (the first goroutine the connection handler
// starts) is not the proxy's: it stays blocked on its pipe whenever the main chain ends without
// reading to EOF or closing its wrapper - a leak of the tee handler (known finding K02, judged in
// the listener-wrapper world), not of the relay.
func c03Left(e *worlds.Env, wrappers string) []string {
	var out []string
	for _, g := range liveWith(e, "srv.1") {
		if wrappers == "tee" && g == "srv.1.1" {
			continue
		}
		out = append(out, g)
	}
	return out
}
