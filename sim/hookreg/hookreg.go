// Package hookreg is the one place where the hook variables of every instrumented
// package (added through the build overlay) are registered, so that the simulator can
// install and remove its generic hooks (goroutine start, yield, sync, select pick, pool,
// timer latency) without naming the packages.
package hookreg

import "time"

type Hooks struct {
	Go        *func(func())
	Yield     *func(string)
	Sync      *func(string)
	Pick      *func(string, int) int
	PoolGet   *func(key any, newf func() any) any
	PoolPut   *func(key any, x any)
	TimerSkew *func(d time.Duration) time.Duration
}

var All = map[string]Hooks{}

func Register(pkg string, h Hooks) { All[pkg] = h }
