// simify instruments a scratch copy of selected caddy-l4 (and go-socks5) source
// files with simulation seams and writes a `go build -overlay` file. Nothing in
// the source tree is modified. Rewrites are pattern based (see DESIGN.md §3.1):
//
//	go f(x)                      -> { a0 := x; verifGo(func() { f(a0) }) }
//	ch <- v ; close(ch) ; <-ch ; wg.Wait() ; wg.Done() ; atomic.AddX(..)   (statements)
//	                             -> verifYield("file:func#k"); <stmt>
//	select with >=2 comm cases and no default
//	                             -> switch verifPick(site,n) { case r: nested priority selects }
//	var p = sync.Pool{...}       -> var p = verifPool{...}
//	sync.Mutex / sync.RWMutex / sync.Once (as types)
//	                             -> verifMutex / verifRWMutex / verifOnce
//	net.Dial / net.DialTimeout / tls.Dial / net.ListenUDP / net.ResolveIPAddr
//	                             -> verifDial / verifDialTimeout / verifTLSDial / ...
//
// usage: simify -repo /repo -out DIR -hooks /verif/overlay [-socks5 DIR]
package main

import (
	"reflect"
	"encoding/json"
	"flag"
	"fmt"
	"go/ast"
	"go/parser"
	"go/token"
	"os"
	"path/filepath"
	"regexp"
	"sort"
	"strings"
)

type edit struct {
	start, end int
	text       string
}

func applyEdits(src []byte, eds []edit) []byte {
	sort.Slice(eds, func(i, j int) bool {
		if eds[i].start != eds[j].start {
			return eds[i].start < eds[j].start
		}
		return eds[i].end < eds[j].end
	})
	var out []byte
	pos := 0
	for _, e := range eds {
		if e.start < pos {
			panic(fmt.Sprintf("overlapping edits at %d", e.start))
		}
		out = append(out, src[pos:e.start]...)
		out = append(out, e.text...)
		pos = e.end
	}
	out = append(out, src[pos:]...)
	return out
}

type fileCtx struct {
	name  string // base name
	src   []byte
	fset  *token.FileSet
	f     *ast.File
	stats map[string]int
}

func (c *fileCtx) parse() error {
	c.fset = token.NewFileSet()
	f, err := parser.ParseFile(c.fset, c.name, c.src, parser.ParseComments)
	if err != nil {
		return err
	}
	c.f = f
	return nil
}

func (c *fileCtx) off(p token.Pos) int { return c.fset.Position(p).Offset }
func (c *fileCtx) text(n ast.Node) string {
	return string(c.src[c.off(n.Pos()):c.off(n.End())])
}

func isSel(e ast.Expr, pkg, name string) bool {
	s, ok := e.(*ast.SelectorExpr)
	if !ok {
		return false
	}
	id, ok := s.X.(*ast.Ident)
	return ok && id.Name == pkg && s.Sel.Name == name
}

func funcName(fd *ast.FuncDecl) string {
	n := fd.Name.Name
	if fd.Recv != nil && len(fd.Recv.List) > 0 {
		t := fd.Recv.List[0].Type
		if st, ok := t.(*ast.StarExpr); ok {
			t = st.X
		}
		if id, ok := t.(*ast.Ident); ok {
			n = id.Name + "." + n
		}
	}
	return n
}

// passA: yields, dial replacements, pool replacement.
func (c *fileCtx) passA() {
	var eds []edit
	keep := map[string]bool{}
	// package level pools
	for _, d := range c.f.Decls {
		gd, ok := d.(*ast.GenDecl)
		if !ok || gd.Tok != token.VAR {
			continue
		}
		for _, sp := range gd.Specs {
			vs := sp.(*ast.ValueSpec)
			for _, v := range vs.Values {
				cl, ok := v.(*ast.CompositeLit)
				if ok && isSel(cl.Type, "sync", "Pool") {
					eds = append(eds, edit{c.off(cl.Type.Pos()), c.off(cl.Type.End()), "verifPool"})
					keep["sync.Mutex{}"] = true
					c.stats["pool"]++
				}
			}
		}
	}
	// locks of the code under test: sync.Mutex / sync.RWMutex / sync.Once anywhere a type can
	// stand (fields, variables, new(), composite literals) become the simulator-visible types
	// of the hooks file. A goroutine that waits for such a lock is durably blocked (a channel),
	// so a holder parked at an interception point no longer stalls the whole simulation.
	ast.Inspect(c.f, func(n ast.Node) bool {
		se, ok := n.(*ast.SelectorExpr)
		if !ok {
			return true
		}
		for _, nm := range []string{"Mutex", "RWMutex", "Once"} {
			if isSel(se, "sync", nm) {
				eds = append(eds, edit{c.off(se.Pos()), c.off(se.End()), "verif" + nm})
				keep["sync.Mutex{}"] = true
				c.stats["lock"]++
			}
		}
		return true
	})
	for _, d := range c.f.Decls {
		fd, ok := d.(*ast.FuncDecl)
		if !ok || fd.Body == nil {
			continue
		}
		fn := funcName(fd)
		k := 0
		yield := func(st ast.Stmt) {
			k++
			site := fmt.Sprintf("%s:%s#%d", c.name, fn, k)
			eds = append(eds, edit{c.off(st.Pos()), c.off(st.Pos()), fmt.Sprintf("verifYield(%q); ", site)})
			c.stats["yield"]++
		}
		// syncAfter: a goroutine that was blocked in a receive or in WaitGroup.Wait is woken by
		// another goroutine's send, close or Done and would run on concurrently with it - who gets a
		// lock first, whose event is logged first, would be the Go runtime's choice. An always-active
		// scheduling point right behind the statement makes it the scheduler's.
		syncAfter := func(st ast.Stmt) {
			k++
			eds = append(eds, edit{c.off(st.End()), c.off(st.End()), fmt.Sprintf("; verifSync(%q)", fmt.Sprintf("%s:%s#%d", c.name, fn, k))})
			c.stats["sync"]++
		}
		// hasAtomic: the expression calls sync/atomic (package functions, or the Load/Store/
		// CompareAndSwap/Swap methods of the atomic types) - a point where another goroutine's
		// update of shared state becomes visible, hence a scheduling point
		hasAtomic := func(n ast.Node) bool {
			if n == nil || reflect.ValueOf(n).IsNil() {
				return false
			}
			found := false
			ast.Inspect(n, func(x ast.Node) bool {
				if _, ok := x.(*ast.FuncLit); ok {
					return false
				}
				ce, ok := x.(*ast.CallExpr)
				if !ok {
					return true
				}
				if se, ok := ce.Fun.(*ast.SelectorExpr); ok {
					if id, ok := se.X.(*ast.Ident); ok && id.Name == "atomic" {
						found = true
					}
					switch se.Sel.Name {
					case "Load", "Store", "CompareAndSwap", "Swap":
						found = true
					}
				}
				return !found
			})
			return found
		}
		var visitList func(list []ast.Stmt)
		visitList = func(list []ast.Stmt) {
			for _, st := range list {
				switch s := st.(type) {
				case *ast.AssignStmt:
					for _, r := range s.Rhs {
						if hasAtomic(r) {
							yield(s)
							break
						}
					}
					// x := <-ch / x, ok = <-ch
					if len(s.Rhs) == 1 {
						if u, ok := s.Rhs[0].(*ast.UnaryExpr); ok && u.Op == token.ARROW {
							yield(s)
							syncAfter(s)
						}
					}
				case *ast.ReturnStmt:
					for _, r := range s.Results {
						if hasAtomic(r) {
							yield(s)
							break
						}
					}
				case *ast.IfStmt:
					if hasAtomic(s.Cond) || (s.Init != nil && hasAtomic(s.Init)) {
						yield(s)
					}
				case *ast.SendStmt:
					yield(s)
				case *ast.ExprStmt:
					switch x := s.X.(type) {
					case *ast.UnaryExpr:
						if x.Op == token.ARROW {
							yield(s)
							syncAfter(s)
						}
					case *ast.CallExpr:
						if id, ok := x.Fun.(*ast.Ident); ok && id.Name == "close" {
							yield(s)
						} else if se, ok := x.Fun.(*ast.SelectorExpr); ok {
							if (se.Sel.Name == "Wait" || se.Sel.Name == "Done") && len(x.Args) == 0 && strings.Contains(strings.ToLower(c.text(se.X)), "wg") {
								yield(s)
								if se.Sel.Name == "Wait" {
									syncAfter(s)
								}
							} else if id, ok := se.X.(*ast.Ident); ok && id.Name == "atomic" {
								yield(s)
								// and after it: the window between an atomic update and the
								// next (possibly plain) access of the same variable
								k++
								site := fmt.Sprintf("%s:%s#%d", c.name, fn, k)
								eds = append(eds, edit{c.off(s.End()), c.off(s.End()), fmt.Sprintf("; verifYield(%q)", site)})
								c.stats["yield"]++
							}
						}
					}
				}
			}
		}
		ast.Inspect(fd.Body, func(n ast.Node) bool {
			switch b := n.(type) {
			case *ast.BlockStmt:
				visitList(b.List)
				// a goroutine coming back from time.Sleep runs concurrently with every
				// other goroutine woken at the same simulated instant: make it a
				// scheduling point
				for _, st := range b.List {
					if es, ok := st.(*ast.ExprStmt); ok {
						if ce, ok := es.X.(*ast.CallExpr); ok && isSel(ce.Fun, "time", "Sleep") {
							k++
							eds = append(eds, edit{c.off(es.End()), c.off(es.End()), fmt.Sprintf("; verifSync(%q)", fmt.Sprintf("%s:%s#%d", c.name, fn, k))})
							c.stats["sync"]++
						}
					}
				}
			case *ast.CaseClause:
				visitList(b.Body)
			case *ast.CommClause:
				visitList(b.Body)
				// same for a select that returns (timer or channel wake-up)
				if b.Comm != nil {
					k++
					eds = append(eds, edit{c.off(b.Colon) + 1, c.off(b.Colon) + 1, fmt.Sprintf(" verifSync(%q); ", fmt.Sprintf("%s:%s#%d", c.name, fn, k))})
					c.stats["sync"]++
				}
			case *ast.CallExpr:
				repl := ""
				switch {
				case isSel(b.Fun, "net", "Dial"):
					repl, keep["net.Dial"] = "verifDial", true
				case isSel(b.Fun, "net", "DialTimeout"):
					repl, keep["net.DialTimeout"] = "verifDialTimeout", true
				case isSel(b.Fun, "tls", "Dial"):
					repl, keep["tls.Dial"] = "verifTLSDial", true
				case isSel(b.Fun, "net", "ListenUDP"):
					repl, keep["net.ListenUDP"] = "verifListenUDP", true
				case isSel(b.Fun, "net", "ResolveIPAddr"):
					repl, keep["net.ResolveIPAddr"] = "verifResolveIPAddr", true
				}
				if repl != "" {
					eds = append(eds, edit{c.off(b.Fun.Pos()), c.off(b.Fun.End()), repl})
					c.stats["dial"]++
				}
				// timers: real timers fire late, never exactly on time; the bubble's
				// are exact. The duration goes through verifTimerSkew (identity
				// outside the simulation, + a small tape-chosen latency inside).
				skew := false
				if len(b.Args) == 1 {
					switch {
					case isSel(b.Fun, "time", "NewTimer"), isSel(b.Fun, "time", "After"), isSel(b.Fun, "time", "Sleep"):
						skew = true
					default:
						if se, ok := b.Fun.(*ast.SelectorExpr); ok && se.Sel.Name == "Reset" && strings.Contains(strings.ToLower(c.text(se.X)), "timer") {
							skew = true
						}
					}
				}
				if skew {
					a := b.Args[0]
					eds = append(eds, edit{c.off(a.Pos()), c.off(a.Pos()), "verifTimerSkew("}, edit{c.off(a.End()), c.off(a.End()), ")"})
					c.stats["timer"]++
				}
			}
			return true
		})
	}
	c.src = applyEdits(c.src, eds)
	if len(keep) > 0 {
		var ks []string
		for k := range keep {
			ks = append(ks, k)
		}
		sort.Strings(ks)
		c.src = append(c.src, "\n// keep imports used after the rewrite\nvar (\n"...)
		for _, k := range ks {
			c.src = append(c.src, ("\t_ = " + k + "\n")...)
		}
		c.src = append(c.src, ")\n"...)
	}
}

func containsNode(root ast.Node, pred func(ast.Node) bool) bool {
	found := false
	ast.Inspect(root, func(n ast.Node) bool {
		if n == nil || found {
			return false
		}
		if n != root && pred(n) {
			found = true
			return false
		}
		return true
	})
	return found
}

// passGo rewrites one generation of innermost go statements; returns whether
// anything changed.
func (c *fileCtx) passGo() bool {
	var eds []edit
	ast.Inspect(c.f, func(n ast.Node) bool {
		g, ok := n.(*ast.GoStmt)
		if !ok {
			return true
		}
		if containsNode(g, func(m ast.Node) bool { _, ok := m.(*ast.GoStmt); return ok }) {
			return true
		}
		var sb strings.Builder
		sb.WriteString("{ ")
		var args []string
		for i, a := range g.Call.Args {
			switch a.(type) {
			case *ast.BasicLit, *ast.FuncLit:
				args = append(args, c.text(a))
			default:
				v := fmt.Sprintf("verifA%d", i)
				fmt.Fprintf(&sb, "%s := %s; ", v, c.text(a))
				args = append(args, v)
			}
		}
		ell := ""
		if g.Call.Ellipsis.IsValid() {
			ell = "..."
		}
		fmt.Fprintf(&sb, "verifGo(func() { %s(%s%s) }) }", c.text(g.Call.Fun), strings.Join(args, ", "), ell)
		eds = append(eds, edit{c.off(g.Pos()), c.off(g.End()), sb.String()})
		c.stats["go"]++
		return false
	})
	if len(eds) == 0 {
		return false
	}
	c.src = applyEdits(c.src, eds)
	return true
}

// passSelect rewrites innermost eligible selects; returns whether anything changed.
func (c *fileCtx) passSelect() bool {
	var eds []edit
	done := map[ast.Node]bool{}
	// selects already generated by us live inside `switch verifPick(...)`.
	ast.Inspect(c.f, func(n ast.Node) bool {
		sw, ok := n.(*ast.SwitchStmt)
		if !ok || sw.Tag == nil {
			return true
		}
		if ce, ok := sw.Tag.(*ast.CallExpr); ok {
			if id, ok := ce.Fun.(*ast.Ident); ok && id.Name == "verifPick" {
				ast.Inspect(sw, func(m ast.Node) bool {
					if s, ok := m.(*ast.SelectStmt); ok {
						done[s] = true
					}
					return true
				})
			}
		}
		return true
	})
	eligible := func(s *ast.SelectStmt) bool {
		if done[s] {
			return false
		}
		if len(s.Body.List) < 2 {
			return false
		}
		for _, cl := range s.Body.List {
			if cl.(*ast.CommClause).Comm == nil {
				return false
			}
		}
		return true
	}
	var curFn string
	counter := map[string]int{}
	for _, d := range c.f.Decls {
		fd, ok := d.(*ast.FuncDecl)
		if !ok || fd.Body == nil {
			continue
		}
		curFn = funcName(fd)
		ast.Inspect(fd.Body, func(n ast.Node) bool {
			s, ok := n.(*ast.SelectStmt)
			if !ok {
				return true
			}
			if !eligible(s) {
				return true
			}
			if containsNode(s, func(m ast.Node) bool {
				t, ok := m.(*ast.SelectStmt)
				return ok && eligible(t)
			}) {
				return true
			}
			counter[curFn]++
			site := fmt.Sprintf("%s:%s#sel%d", c.name, curFn, counter[curFn])
			var clauses []string
			labels := map[string]bool{}
			for _, cl := range s.Body.List {
				clauses = append(clauses, c.text(cl))
				ast.Inspect(cl, func(m ast.Node) bool {
					if ls, ok := m.(*ast.LabeledStmt); ok {
						labels[ls.Label.Name] = true
					}
					return true
				})
			}
			nc := len(clauses)
			copyNo := 0
			// every copy of a clause body needs its own label names
			relabel := func(txt string) string {
				if len(labels) == 0 {
					return txt
				}
				copyNo++
				for l := range labels {
					re := regexp.MustCompile(`\b` + regexp.QuoteMeta(l) + `\b`)
					txt = re.ReplaceAllString(txt, fmt.Sprintf("%s_v%d", l, copyNo))
				}
				return txt
			}
			origf := func() string {
				var cs []string
				for _, cl := range clauses {
					cs = append(cs, relabel(cl))
				}
				return "select {\n" + strings.Join(cs, "\n") + "\n}"
			}
			var sb strings.Builder
			fmt.Fprintf(&sb, "switch verifPick(%q, %d) {\n", site, nc)
			for r := 0; r < nc; r++ {
				if r == nc-1 {
					sb.WriteString("default:\n")
				} else {
					fmt.Fprintf(&sb, "case %d:\n", r)
				}
				// nested priority: clauses r, r+1, ...
				depth := 0
				for j := 0; j < nc; j++ {
					fmt.Fprintf(&sb, "select {\n%s\ndefault:\n", relabel(clauses[(r+j)%nc]))
					depth++
				}
				sb.WriteString(origf() + "\n")
				for j := 0; j < depth; j++ {
					sb.WriteString("}\n")
				}
			}
			sb.WriteString("}")
			eds = append(eds, edit{c.off(s.Pos()), c.off(s.End()), sb.String()})
			c.stats["select"]++
			return false
		})
	}
	if len(eds) == 0 {
		return false
	}
	c.src = applyEdits(c.src, eds)
	return true
}

func instrument(path string, stats map[string]int) ([]byte, bool, error) {
	src, err := os.ReadFile(path)
	if err != nil {
		return nil, false, err
	}
	c := &fileCtx{name: filepath.Base(path), src: src, stats: map[string]int{}}
	if err := c.parse(); err != nil {
		return nil, false, err
	}
	c.passA()
	for i := 0; i < 10; i++ {
		if err := c.parse(); err != nil {
			return nil, false, fmt.Errorf("after passA/go: %v", err)
		}
		if !c.passGo() {
			break
		}
	}
	for i := 0; i < 10; i++ {
		if err := c.parse(); err != nil {
			return nil, false, fmt.Errorf("after select: %v", err)
		}
		if !c.passSelect() {
			break
		}
	}
	if err := c.parse(); err != nil {
		return nil, false, fmt.Errorf("final: %v", err)
	}
	changed := false
	for k, v := range c.stats {
		if v > 0 {
			changed = true
			stats[k] += v
		}
	}
	return c.src, changed, nil
}

func main() {
	repo := flag.String("repo", "/repo", "repository root")
	out := flag.String("out", "", "output dir for instrumented copies")
	hooks := flag.String("hooks", "/verif/overlay", "dir with files to add to packages (hooks and accessors)")
	socks := flag.String("socks5", "", "go-socks5 module dir (optional; a scratch copy, rewritten in place)")
	flag.Parse()
	if *out == "" {
		fmt.Fprintln(os.Stderr, "need -out")
		os.Exit(2)
	}
	overlay := map[string]string{}
	stats := map[string]int{}
	perFile := map[string]map[string]int{}
	pkgs := []string{"layer4"}
	if ms, err := os.ReadDir(filepath.Join(*repo, "modules")); err == nil {
		for _, m := range ms {
			if m.IsDir() {
				pkgs = append(pkgs, "modules/"+m.Name())
			}
		}
	}
	type pk struct {
		dir, pkgname, outsub string
		inplace              bool
	}
	var todo []pk
	for _, p := range pkgs {
		todo = append(todo, pk{filepath.Join(*repo, p), filepath.Base(p), p, false})
	}
	if *socks != "" {
		todo = append(todo, pk{*socks, "socks5", "dep/go-socks5", true})
	}
	hookTmpl, err := os.ReadFile(filepath.Join(*hooks, "hooks.go.tmpl"))
	if err != nil {
		fmt.Fprintln(os.Stderr, err)
		os.Exit(2)
	}
	for _, p := range todo {
		ents, err := os.ReadDir(p.dir)
		if err != nil {
			fmt.Fprintln(os.Stderr, err)
			os.Exit(2)
		}
		od := filepath.Join(*out, p.outsub)
		if p.inplace {
			od = p.dir
		}
		os.MkdirAll(od, 0o755)
		for _, e := range ents {
			n := e.Name()
			if e.IsDir() || !strings.HasSuffix(n, ".go") || strings.HasSuffix(n, "_test.go") {
				continue
			}
			st := map[string]int{}
			src, changed, err := instrument(filepath.Join(p.dir, n), st)
			if err != nil {
				fmt.Fprintf(os.Stderr, "simify: %s/%s: %v\n", p.dir, n, err)
				os.Exit(2)
			}
			if !changed {
				continue
			}
			perFile[p.outsub+"/"+n] = st
			for k, v := range st {
				stats[k] += v
			}
			op := filepath.Join(od, n)
			if err := os.WriteFile(op, src, 0o644); err != nil {
				fmt.Fprintln(os.Stderr, err)
				os.Exit(2)
			}
			if !p.inplace {
				overlay[filepath.Join(p.dir, n)] = op
			}
		}
		// hooks file
		pkgname := p.pkgname
		if pkgname == "layer4" || strings.HasPrefix(pkgname, "l4") || pkgname == "socks5" {
			h := strings.ReplaceAll(string(hookTmpl), "PKGNAME", pkgname)
			hp := filepath.Join(od, "zz_verif_hooks.go")
			os.WriteFile(hp, []byte(h), 0o644)
			if !p.inplace {
				overlay[filepath.Join(p.dir, "zz_verif_hooks.go")] = hp
			}
		}
	}
	// accessor files: /verif/overlay/<repo-relative-dir>/*.go are added verbatim
	filepath.Walk(*hooks, func(path string, info os.FileInfo, err error) error {
		if err != nil || info.IsDir() || !strings.HasSuffix(path, ".go") {
			return nil
		}
		rel, _ := filepath.Rel(*hooks, path)
		overlay[filepath.Join(*repo, rel)] = path
		return nil
	})
	ov := map[string]any{"Replace": overlay}
	b, _ := json.MarshalIndent(ov, "", " ")
	os.WriteFile(filepath.Join(*out, "overlay.json"), b, 0o644)
	sb, _ := json.MarshalIndent(map[string]any{"total": stats, "files": perFile}, "", " ")
	os.WriteFile(filepath.Join(*out, "seams.json"), sb, 0o644)
	fmt.Printf("simify: %v\n", stats)
}
