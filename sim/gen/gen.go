// Package gen builds provisioned caddy-l4 connection matchers and generates
// first messages for them: well-formed messages the default configuration
// accepts when delivered whole, structure-aware mutations of such messages
// and purely random inputs. Every choice that influences the produced bytes
// is drawn from a Rand (a deterministic choice tape): choice 0 is always the
// plainest alternative, so a tape that ran dry (all zeros) still produces a
// valid, boring message.
package gen

import (
	"encoding/binary"
	"fmt"
	"io"
	"net"
	"sync/atomic"
	"time"

	"github.com/caddyserver/caddy/v2"
	"github.com/mholt/caddy-l4/layer4"
	"go.uber.org/zap"
)

// Rand is the only source of randomness used by this package.
// Choose returns a value in [0,n).
type Rand interface {
	Choose(n int, label string) int
}

// NamedMatcher is one provisioned matcher configuration.
type NamedMatcher struct {
	Name string             // e.g. "postgres", "http{host=example.com}"
	M    layer4.ConnMatcher // fully provisioned, ready for Match()
	// MatchesValid is true if every message produced by Valid() (delivered
	// whole) must match under this configuration.
	MatchesValid bool
}

// Proto describes one shipped connection matcher.
type Proto struct {
	Name string
	TCP  bool // matcher is meaningful on stream connections
	UDP  bool // matcher is meaningful on datagram connections
	// Slow marks matchers whose Match spins up real goroutines and real
	// timers (quic): callers should run them in a separate, small batch.
	Slow bool
	// NoTrailing is true if the default matcher REJECTS a valid message that
	// is followed by further bytes in the same prefetch buffer (dns over tcp,
	// rdp, openvpn over tcp, wireguard, quic; winbox too, except that its rare
	// two-chunk messages tolerate a few extra bytes). For the other stream
	// matchers arbitrary trailing data may follow a Valid() message.
	NoTrailing bool
	// Matchers builds provisioned matchers, index 0 is the default
	// configuration.
	Matchers func(ctx caddy.Context) ([]NamedMatcher, error)
	// Valid returns one well-formed first message that the default matcher
	// accepts when it is delivered whole.
	Valid func(r Rand, tcp bool) []byte
	// Mutate returns a structure-aware mutation of a valid message.
	Mutate func(r Rand, msg []byte, tcp bool) []byte
}

// All returns the descriptors of every shipped connection matcher.
func All() []*Proto {
	ps := allProtos()
	for _, p := range ps {
		harden(p)
	}
	return ps
}

// MutatePanics reports how many times a protocol specific Mutate function of
// this package panicked (and was replaced by GenericMutate) and the message of
// the last such panic. It is expected to stay at zero.
func MutatePanics() (int64, string) {
	s, _ := lastMutatePanic.Load().(string)
	return mutatePanics.Load(), s
}

var (
	mutatePanics    atomic.Int64
	lastMutatePanic atomic.Value
)

// harden makes p.Mutate total: a bug in a structure-aware mutation must not
// take a simulation worker down, it degrades to a generic mutation.
func harden(p *Proto) {
	inner := p.Mutate
	name := p.Name
	p.Mutate = func(r Rand, msg []byte, tcp bool) (out []byte) {
		defer func() {
			if e := recover(); e != nil {
				mutatePanics.Add(1)
				lastMutatePanic.Store(fmt.Sprintf("%s: %v", name, e))
				out = GenericMutate(r, msg)
			}
		}()
		out = inner(r, msg, tcp)
		if out == nil {
			out = []byte{}
		}
		return out
	}
}

func allProtos() []*Proto {
	return []*Proto{
		protoTLS(),
		protoHTTP(),
		protoSSH(),
		protoXMPP(),
		protoPostgres(),
		protoProxyProtocol(),
		protoSocks4(),
		protoSocks5(),
		protoRegexp(),
		protoRDP(),
		protoDNS(),
		protoOpenVPN(),
		protoWinbox(),
		protoWireGuard(),
		protoQUIC(),
		protoRemoteIP(),
		protoLocalIP(),
		protoClock(),
		protoNot(),
	}
}

// ByName returns the descriptor with the given name, or nil.
func ByName(name string) *Proto {
	for _, p := range All() {
		if p.Name == name {
			return p
		}
	}
	return nil
}

// ---------------------------------------------------------------------------
// running a matcher on a whole message

// Addresses reported by the fake connection used by MatchWhole.
var (
	FakeLocalIP    = net.IPv4(198, 51, 100, 20)
	FakeRemoteIP   = net.IPv4(192, 0, 2, 10)
	FakeLocalPort  = 443
	FakeRemotePort = 40000
)

// FakeConn is a net.Conn without any socket behind it. LocalAddr/RemoteAddr
// are *net.TCPAddr or *net.UDPAddr; Read reports EOF (and is counted), Write
// discards.
type FakeConn struct {
	local, remote net.Addr
	reads         atomic.Int64
}

// NewFakeConn returns a FakeConn with TCP (tcp=true) or UDP addresses.
func NewFakeConn(tcp bool) *FakeConn {
	if tcp {
		return &FakeConn{
			local:  &net.TCPAddr{IP: FakeLocalIP, Port: FakeLocalPort},
			remote: &net.TCPAddr{IP: FakeRemoteIP, Port: FakeRemotePort},
		}
	}
	return &FakeConn{
		local:  &net.UDPAddr{IP: FakeLocalIP, Port: FakeLocalPort},
		remote: &net.UDPAddr{IP: FakeRemoteIP, Port: FakeRemotePort},
	}
}

func (c *FakeConn) Read([]byte) (int, error)         { c.reads.Add(1); return 0, io.EOF }
func (c *FakeConn) Write(p []byte) (int, error)      { return len(p), nil }
func (c *FakeConn) Close() error                     { return nil }
func (c *FakeConn) LocalAddr() net.Addr              { return c.local }
func (c *FakeConn) RemoteAddr() net.Addr             { return c.remote }
func (c *FakeConn) SetDeadline(time.Time) error      { return nil }
func (c *FakeConn) SetReadDeadline(time.Time) error  { return nil }
func (c *FakeConn) SetWriteDeadline(time.Time) error { return nil }

// Reads is the number of Read calls that reached the fake socket.
func (c *FakeConn) Reads() int64 { return c.reads.Load() }

var nopLogger = zap.NewNop()

// MatchWhole runs m on data presented as already-prefetched bytes of a
// connection whose LocalAddr/RemoteAddr are TCP (tcp=true) or UDP addresses.
// It goes through layer4.MatcherSet, i.e. the matcher runs in the router's
// matching mode: reads are served from the prefetched bytes only and end with
// layer4.ErrConsumedAllPrefetchedBytes. No socket and no goroutine is used.
func MatchWhole(m layer4.ConnMatcher, data []byte, tcp bool) (matched bool, err error) {
	buf := make([]byte, len(data))
	copy(buf, data)
	cx := layer4.WrapConnection(NewFakeConn(tcp), buf, nopLogger)
	return layer4.MatcherSet{m}.Match(cx)
}

// ---------------------------------------------------------------------------
// choice helpers

func choose(r Rand, n int, label string) int {
	if n <= 1 {
		return 0
	}
	v := r.Choose(n, label)
	if v < 0 || v >= n { // defensive: a broken Rand must not break us
		v = 0
	}
	return v
}

// between returns a value in [lo,hi]; lo is the plain choice.
func between(r Rand, lo, hi int, label string) int {
	if hi <= lo {
		return lo
	}
	return lo + choose(r, hi-lo+1, label)
}

// coin is true with probability 1/2; false is the plain choice.
func coin(r Rand, label string) bool { return choose(r, 2, label) == 1 }

// oneIn is true with probability 1/n; false is the plain choice.
func oneIn(r Rand, n int, label string) bool { return choose(r, n, label) == n-1 && n > 1 }

func pick[T any](r Rand, label string, xs ...T) T {
	return xs[choose(r, len(xs), label)]
}

// rbytes draws n bytes one choice at a time (for short, interesting fields).
func rbytes(r Rand, n int, label string) []byte {
	b := make([]byte, n)
	for i := range b {
		b[i] = byte(choose(r, 256, label))
	}
	return b
}

// splitmix64 is used to expand one drawn seed into opaque filler (keys, MACs,
// ciphertext) without spending one tape entry per byte.
type splitmix64 uint64

func (s *splitmix64) next() uint64 {
	*s += 0x9e3779b97f4a7c15
	z := uint64(*s)
	z = (z ^ (z >> 30)) * 0xbf58476d1ce4e5b9
	z = (z ^ (z >> 27)) * 0x94d049bb133111eb
	return z ^ (z >> 31)
}

func (s *splitmix64) fill(b []byte) {
	for i := 0; i < len(b); {
		v := s.next()
		for k := 0; k < 8 && i < len(b); k, i = k+1, i+1 {
			b[i] = byte(v >> (8 * k))
		}
	}
}

func drawSeed(r Rand, label string) splitmix64 {
	hi := choose(r, 1<<16, label)
	lo := choose(r, 1<<16, label)
	return splitmix64(uint64(hi)<<16 | uint64(lo))
}

// opaque returns n pseudo-random bytes derived from one drawn seed.
func opaque(r Rand, n int, label string) []byte {
	b := make([]byte, n)
	if n == 0 {
		return b
	}
	s := drawSeed(r, label)
	s.fill(b)
	return b
}

// rstring draws a string of length n over alphabet.
func rstring(r Rand, n int, alphabet string, label string) string {
	b := make([]byte, n)
	for i := range b {
		b[i] = alphabet[choose(r, len(alphabet), label)]
	}
	return string(b)
}

const (
	alnumLower = "abcdefghijklmnopqrstuvwxyz0123456789"
	alnum      = "abcdefghijklmnopqrstuvwxyzABCDEFGHIJKLMNOPQRSTUVWXYZ0123456789"
)

var hostNames = []string{
	"example.com", "localhost", "www.example.com", "sub.example.com", "example.org",
	"caddyserver.com", "a.b.c.example.net", "xn--bcher-kva.example", "EXAMPLE.COM", "test.invalid",
}

func hostName(r Rand, label string) string {
	if oneIn(r, 4, label+".rand") {
		n := between(r, 1, 3, label+".labels")
		s := ""
		for i := 0; i < n; i++ {
			s += rstring(r, between(r, 1, 12, label+".len"), alnumLower, label+".ch") + "."
		}
		return s + pick(r, label+".tld", "com", "net", "org", "io", "test")
	}
	return pick(r, label, hostNames...)
}

func cat(parts ...[]byte) []byte {
	n := 0
	for _, p := range parts {
		n += len(p)
	}
	out := make([]byte, 0, n)
	for _, p := range parts {
		out = append(out, p...)
	}
	return out
}

func clone(b []byte) []byte {
	out := make([]byte, len(b))
	copy(out, b)
	return out
}

func be16(v int) []byte { return []byte{byte(v >> 8), byte(v)} }
func be32(v uint32) []byte {
	return []byte{byte(v >> 24), byte(v >> 16), byte(v >> 8), byte(v)}
}
func le32(v uint32) []byte {
	return []byte{byte(v), byte(v >> 8), byte(v >> 16), byte(v >> 24)}
}

// ---------------------------------------------------------------------------
// protocol-agnostic generators

// RandomBytes returns uniformly random bytes; the length is chosen with a
// bias to short inputs (0..8, 0..64, 0..512, 0..maxLen with equal weight).
func RandomBytes(r Rand, maxLen int) []byte {
	if maxLen < 0 {
		maxLen = 0
	}
	limit := maxLen
	switch choose(r, 4, "rand.bucket") {
	case 0:
		limit = min(8, maxLen)
	case 1:
		limit = min(64, maxLen)
	case 2:
		limit = min(512, maxLen)
	}
	n := between(r, 0, limit, "rand.len")
	if n <= 64 {
		return rbytes(r, n, "rand.byte")
	}
	return opaque(r, n, "rand.seed")
}

// lenField is the location of something that looks like (or is) a length
// field inside a message.
type lenField struct {
	off   int  // offset of the field
	width int  // 1, 2, 3 or 4 bytes
	le    bool // little endian
}

func (f lenField) get(msg []byte) uint32 {
	var v uint32
	for i := 0; i < f.width; i++ {
		if f.le {
			v |= uint32(msg[f.off+i]) << (8 * i)
		} else {
			v = v<<8 | uint32(msg[f.off+i])
		}
	}
	return v
}

func (f lenField) put(msg []byte, v uint32) {
	for i := 0; i < f.width; i++ {
		if f.le {
			msg[f.off+i] = byte(v >> (8 * i))
		} else {
			msg[f.off+i] = byte(v >> (8 * (f.width - 1 - i)))
		}
	}
}

func (f lenField) max() uint32 {
	if f.width >= 4 {
		return 0xffffffff
	}
	return 1<<(8*f.width) - 1
}

// boundary returns a boundary value for a length field whose consistent
// value is v: 0, 1, v-1, v, v+1, max, max/2+1 (sign bit) or max-1.
func boundary(r Rand, f lenField, v uint32, label string) uint32 {
	switch choose(r, 9, label) {
	case 0:
		return 0
	case 1:
		return 1
	case 2:
		return v - 1
	case 3:
		return v + 1
	case 4:
		return f.max()
	case 5:
		return f.max()/2 + 1
	case 6:
		return f.max() - 1
	case 7:
		return v * 2
	default:
		return v
	}
}

// mutateLenField overwrites one of the given length fields with a boundary
// value and, half of the time, makes the message length follow the new value
// when that is cheap (truncate, or pad with zeros up to 4 KiB).
func mutateLenField(r Rand, msg []byte, fields []lenField, label string) []byte {
	out := clone(msg)
	if len(fields) == 0 {
		return out
	}
	f := fields[choose(r, len(fields), label+".which")]
	if f.off < 0 || f.off+f.width > len(out) {
		return out
	}
	old := f.get(out)
	nv := boundary(r, f, old, label+".value")
	f.put(out, nv)
	if coin(r, label+".follow") {
		// keep the message consistent with the new length when possible
		delta := int64(nv) - int64(old)
		switch {
		case delta < 0 && int64(len(out))+delta >= int64(f.off+f.width):
			out = out[:int64(len(out))+delta]
		case delta > 0 && delta <= 4096:
			out = append(out, make([]byte, delta)...)
		}
	}
	return out
}

// findLenFields scans msg for integers that look like length fields: a 1, 2
// or 4 byte big or little endian integer whose value equals the number of
// bytes that follow it, or the total length, give or take a few bytes.
func findLenFields(msg []byte) []lenField {
	var out []lenField
	looks := func(v uint32, off, width int) bool {
		rem := len(msg) - off - width
		for d := -4; d <= 8; d++ {
			if int64(v) == int64(rem)+int64(d) && v != 0 {
				return true
			}
		}
		return false
	}
	limit := min(len(msg), 96)
	for off := 0; off < limit; off++ {
		for _, w := range []int{1, 2, 4} {
			if off+w > len(msg) {
				continue
			}
			for _, le := range []bool{false, true} {
				if w == 1 && le {
					continue
				}
				f := lenField{off: off, width: w, le: le}
				if looks(f.get(msg), off, w) {
					out = append(out, f)
				}
			}
		}
	}
	return out
}

// GenericMutate applies one to three protocol-agnostic mutations: bit flips,
// boundary bytes, truncation, deletion, duplication, splices of 0x00/0xff
// runs, swapped chunks, appended garbage, and length-looking fields set to
// boundary values.
func GenericMutate(r Rand, msg []byte) []byte {
	out := clone(msg)
	n := 1 + choose(r, 3, "gm.count")
	for i := 0; i < n; i++ {
		out = genericMutateOnce(r, out)
	}
	return out
}

func genericMutateOnce(r Rand, msg []byte) []byte {
	out := clone(msg)
	if len(out) == 0 {
		return RandomBytes(r, 16)
	}
	pos := func(label string) int { return choose(r, len(out), label) }
	switch choose(r, 14, "gm.op") {
	case 0: // flip one bit
		p := pos("gm.pos")
		out[p] ^= 1 << choose(r, 8, "gm.bit")
	case 1: // boundary byte
		out[pos("gm.pos")] = pick[byte](r, "gm.byte", 0x00, 0x01, 0x7f, 0x80, 0xff, 0x0d, 0x0a, 0x20)
	case 2: // truncate anywhere
		out = out[:choose(r, len(out)+1, "gm.cut")]
	case 3: // drop the last 1..4 bytes
		k := min(len(out), between(r, 1, 4, "gm.tail"))
		out = out[:len(out)-k]
	case 4: // delete a range
		p := pos("gm.pos")
		k := min(len(out)-p, between(r, 1, 16, "gm.len"))
		out = append(out[:p], out[p+k:]...)
	case 5: // duplicate a range in place
		p := pos("gm.pos")
		k := min(len(out)-p, between(r, 1, 32, "gm.len"))
		dup := clone(out[p : p+k])
		out = cat(out[:p+k], dup, out[p+k:])
	case 6: // insert a run of 0x00 / 0xff
		p := choose(r, len(out)+1, "gm.pos")
		run := make([]byte, pick(r, "gm.run", 1, 2, 4, 8, 64, 300, 4096))
		if coin(r, "gm.ff") {
			for i := range run {
				run[i] = 0xff
			}
		}
		out = cat(out[:p], run, out[p:])
	case 7: // overwrite with a run of 0x00 / 0xff
		p := pos("gm.pos")
		k := min(len(out)-p, pick(r, "gm.run", 1, 2, 4, 8, 64))
		v := pick[byte](r, "gm.fill", 0x00, 0xff)
		for i := p; i < p+k; i++ {
			out[i] = v
		}
	case 8: // swap two chunks
		if len(out) >= 4 {
			k := between(r, 1, len(out)/2, "gm.len")
			a := choose(r, len(out)-2*k+1, "gm.pos")
			b := a + k + choose(r, len(out)-a-2*k+1, "gm.pos2")
			tmp := clone(out[a : a+k])
			copy(out[a:a+k], out[b:b+k])
			copy(out[b:b+k], tmp)
		}
	case 9: // append garbage
		out = append(out, RandomBytes(r, 64)...)
	case 10: // the message twice
		out = append(out, msg...)
	case 11: // a length-looking field gets a boundary value
		fields := findLenFields(out)
		if len(fields) > 0 {
			out = mutateLenField(r, out, fields, "gm.lenfield")
		} else {
			out[pos("gm.pos")] = 0xff
		}
	case 12: // any aligned integer gets a boundary value
		w := pick(r, "gm.width", 1, 2, 4)
		if len(out) >= w {
			f := lenField{off: choose(r, len(out)-w+1, "gm.pos"), width: w, le: coin(r, "gm.le")}
			f.put(out, boundary(r, f, uint32(len(out)-f.off-w), "gm.intval"))
		}
	case 13: // random byte
		out[pos("gm.pos")] = byte(choose(r, 256, "gm.any"))
	}
	return out
}

// truncations returns msg cut at one of the given interesting offsets.
func cutAt(r Rand, msg []byte, label string, offs ...int) []byte {
	var ok []int
	for _, o := range offs {
		if o >= 0 && o <= len(msg) {
			ok = append(ok, o)
		}
	}
	if len(ok) == 0 {
		return clone(msg)
	}
	return clone(msg[:ok[choose(r, len(ok), label)]])
}

func setByte(b []byte, off int, v byte) {
	if off >= 0 && off < len(b) {
		b[off] = v
	}
}

func putBE16(b []byte, off int, v int) {
	if off >= 0 && off+2 <= len(b) {
		binary.BigEndian.PutUint16(b[off:], uint16(v))
	}
}

// provisionAll provisions every matcher that implements caddy.Provisioner.
func provisionAll(ctx caddy.Context, ms []NamedMatcher) ([]NamedMatcher, error) {
	for _, nm := range ms {
		if p, ok := nm.M.(caddy.Provisioner); ok {
			if err := p.Provision(ctx); err != nil {
				return nil, &provisionError{name: nm.Name, err: err}
			}
		}
	}
	return ms, nil
}

type provisionError struct {
	name string
	err  error
}

func (e *provisionError) Error() string { return "provisioning " + e.name + ": " + e.err.Error() }
func (e *provisionError) Unwrap() error { return e.err }
