package gen

import (
	"strings"

	"github.com/caddyserver/caddy/v2"
	"github.com/mholt/caddy-l4/modules/l4dns"
)

func protoDNS() *Proto {
	return &Proto{
		Name: "dns", TCP: true, UDP: true, NoTrailing: true,
		Matchers: func(ctx caddy.Context) ([]NamedMatcher, error) {
			return provisionAll(ctx, []NamedMatcher{
				{Name: "dns", M: &l4dns.MatchDNS{}, MatchesValid: true},
				{Name: "dns{allow_regexp=example.com}", M: &l4dns.MatchDNS{Allow: l4dns.MatchDNSRules{{NameRegexp: `^(|[-0-9a-z]+\.)example\.com\.$`}}}},
				{Name: "dns{deny=* ANY}", M: &l4dns.MatchDNS{Deny: l4dns.MatchDNSRules{{Type: "ANY"}}}},
				{Name: "dns{allow=* A IN,allow=* AAAA IN,deny=blocked.example.com.,default_deny}", M: &l4dns.MatchDNS{
					Allow:       l4dns.MatchDNSRules{{Type: "A", Class: "IN"}, {Type: "AAAA", Class: "IN"}},
					Deny:        l4dns.MatchDNSRules{{Name: "blocked.example.com."}},
					DefaultDeny: true,
				}},
				{Name: "dns{allow=example.com.,deny_regexp=* * ^IN$,prefer_allow}", M: &l4dns.MatchDNS{
					Allow:       l4dns.MatchDNSRules{{Name: "example.com."}},
					Deny:        l4dns.MatchDNSRules{{ClassRegexp: "^IN$"}},
					PreferAllow: true,
				}},
			})
		},
		Valid:  dnsValid,
		Mutate: dnsMutate,
	}
}

type dnsQuestion struct {
	name  string // presentation format, "." for the root
	qtype int
	class int
}

type dnsMsg struct {
	id        int
	flags     int
	questions []dnsQuestion
	edns      bool
	ednsSize  int
	ednsFlags int
	ednsOpt   []byte // raw option data
}

func dnsName(name string) []byte {
	var out []byte
	for _, label := range strings.Split(strings.TrimSuffix(name, "."), ".") {
		if label == "" {
			continue
		}
		out = append(out, byte(len(label)))
		out = append(out, label...)
	}
	return append(out, 0)
}

func (m dnsMsg) bytes() []byte {
	ar := 0
	if m.edns {
		ar = 1
	}
	out := cat(be16(m.id), be16(m.flags), be16(len(m.questions)), be16(0), be16(0), be16(ar))
	for _, q := range m.questions {
		out = cat(out, dnsName(q.name), be16(q.qtype), be16(q.class))
	}
	if m.edns {
		out = cat(out, []byte{0}, be16(41), be16(m.ednsSize), []byte{0, 0}, be16(m.ednsFlags), be16(len(m.ednsOpt)), m.ednsOpt)
	}
	return out
}

func dnsFrame(msg []byte, tcp bool) []byte {
	if tcp {
		return cat(be16(len(msg)), msg)
	}
	return msg
}

func dnsGenName(r Rand) string {
	switch choose(r, 6, "dns.namekind") {
	case 0:
		return pick(r, "dns.name", "example.com.", "apple.com.", "google.com.", "www.example.com.", "blocked.example.com.", "_dmarc.example.org.")
	case 1:
		return "."
	case 2:
		return pick(r, "dns.mixed", "ExAmPlE.CoM.", "WWW.EXAMPLE.COM.")
	case 3: // reverse lookup
		return "4.3.2.1.in-addr.arpa."
	case 4: // long labels
		n := between(r, 1, 3, "dns.nlong")
		s := ""
		for i := 0; i < n; i++ {
			s += rstring(r, pick(r, "dns.longlabel", 62, 63, 40), alnumLower, "dns.ch") + "."
		}
		return s
	default:
		n := between(r, 1, 5, "dns.nlabels")
		s := ""
		for i := 0; i < n; i++ {
			s += rstring(r, between(r, 1, 12, "dns.labellen"), alnumLower+"-_", "dns.ch") + "."
		}
		return s
	}
}

func dnsGen(r Rand) dnsMsg {
	m := dnsMsg{id: between(r, 0, 65535, "dns.id")}
	m.flags = pick(r, "dns.flags", 0x0100 /* RD */, 0x0000, 0x0120 /* RD AD */, 0x0110 /* RD CD */, 0x2000 /* opcode 4 NOTIFY */, 0x0800 /* opcode 1 IQUERY */)
	nq := 1
	if oneIn(r, 8, "dns.twoq") {
		nq = 2
	}
	for i := 0; i < nq; i++ {
		m.questions = append(m.questions, dnsQuestion{
			name:  dnsGenName(r),
			qtype: pick(r, "dns.type", 1 /* A */, 28 /* AAAA */, 15 /* MX */, 2 /* NS */, 16 /* TXT */, 6, 33, 255 /* ANY */, 5, 12, 65 /* HTTPS */, 252 /* AXFR */, 65280 /* private */, 0),
			class: pick(r, "dns.class", 1 /* IN */, 1, 1, 3 /* CH */, 255 /* ANY */, 4 /* HS */, 254 /* NONE */, 65280),
		})
	}
	if coin(r, "dns.edns") {
		m.edns = true
		m.ednsSize = pick(r, "dns.ednssize", 1232, 4096, 512, 65535)
		m.ednsFlags = pick(r, "dns.ednsflags", 0, 0x8000 /* DO */)
		if oneIn(r, 3, "dns.cookie") {
			m.ednsOpt = cat(be16(10), be16(8), opaque(r, 8, "dns.cookieval"))
		}
	}
	return m
}

func dnsValid(r Rand, tcp bool) []byte {
	return dnsFrame(dnsGen(r).bytes(), tcp)
}

func dnsMutate(r Rand, in []byte, tcp bool) []byte {
	msg := clone(in)
	if tcp {
		if len(msg) < 2 {
			return GenericMutate(r, in)
		}
		msg = msg[2:]
	}
	if len(msg) < 12 {
		return GenericMutate(r, in)
	}
	qend := 12 // end of the first question name
	for qend < len(msg) && msg[qend] != 0 && msg[qend] < 64 {
		qend += 1 + int(msg[qend])
	}
	qend++
	framed := func(m []byte) []byte { return dnsFrame(m, tcp) }
	switch choose(r, 20, "dns.mut") {
	case 0: // TCP length prefix, message untouched
		if tcp {
			return cat(be16(pick(r, "dns.prefix", 0, 1, 11, 12, 13, len(msg)-1, len(msg)+1, 512, 4096, 65535)), msg)
		}
		return msg[:choose(r, len(msg), "dns.cut")]
	case 1: // TCP length prefix with the message following it
		if tcp {
			return mutateLenField(r, in, []lenField{{off: 0, width: 2}}, "dns.prefixfollow")
		}
		return cat(msg, RandomBytes(r, 8))
	case 2: // question count
		putBE16(msg, 4, pick(r, "dns.qdcount", 0, 2, 3, 255, 65535))
	case 3: // answer / authority / additional counts without records
		putBE16(msg, pick(r, "dns.countoff", 6, 8, 10), pick(r, "dns.count", 1, 2, 255, 65535))
	case 4: // response bit, Z bit, rcode, opcode
		msg[2+choose(r, 2, "dns.flagbyte")] ^= 1 << choose(r, 8, "dns.flagbit")
	case 5: // label length boundary values
		if len(msg) > 12 {
			msg[12] = pick[byte](r, "dns.label", 0, 1, 63, 64, 0x80, 0xBF, 0xC0, 0xFF, byte(len(msg)))
		}
	case 6: // compression pointer to itself / forward / to the header
		if len(msg) > 13 {
			copy(msg[12:14], pick(r, "dns.ptr", []byte{0xC0, 0x0C}, []byte{0xC0, 0x0D}, []byte{0xC0, 0x00}, []byte{0xFF, 0xFF}, []byte{0xC0, 0x0E}))
		}
	case 7: // pointer loop of length two behind a label
		msg = cat(msg[:12], []byte{1, 'a', 0xC0, 0x0E, 0xC0, 0x0C}, be16(1), be16(1))
	case 8: // name without root label
		if qend-1 < len(msg) && qend > 13 {
			msg = cat(msg[:qend-1], msg[qend:])
		}
	case 9: // cut inside the header / the name / type and class
		msg = cutAt(r, msg, "dns.cutat", 0, 1, 11, 12, 13, qend-1, qend, qend+1, qend+3, len(msg)-1)
	case 10: // one extra byte behind the message
		msg = append(msg, pick[byte](r, "dns.extra", 0, 1, 0xff))
	case 11: // name of 255 and 256 bytes
		name := strings.Repeat(strings.Repeat("a", 63)+".", 3) + strings.Repeat("b", pick(r, "dns.lastlabel", 60, 61, 62, 63)) + "."
		msg = dnsMsg{id: 1, flags: 0x0100, questions: []dnsQuestion{{name: name, qtype: 1, class: 1}}}.bytes()
	case 12: // many questions
		m := dnsMsg{id: 1, flags: 0x0100}
		for i, n := 0, pick(r, "dns.manyq", 10, 100, 400); i < n; i++ {
			m.questions = append(m.questions, dnsQuestion{name: "example.com.", qtype: 1, class: 1})
		}
		msg = m.bytes()
	case 13: // EDNS record boundary values
		m := dnsMsg{id: 1, flags: 0x0100, questions: []dnsQuestion{{name: "example.com.", qtype: 1, class: 1}}, edns: true, ednsSize: 1232}
		b := m.bytes()
		tail := len(b) - 11
		switch choose(r, 5, "dns.ednsmut") {
		case 0: // rdlength beyond the data
			putBE16(b, len(b)-2, pick(r, "dns.rdlen", 1, 4, 65535))
		case 1: // extended rcode
			b[tail+5] = 1
		case 2: // version
			b[tail+6] = pick[byte](r, "dns.ednsver", 1, 255)
		case 3: // option with length beyond the data
			b = cat(b[:len(b)-2], be16(4), be16(10), be16(pick(r, "dns.optlen", 1, 8, 65535)))
		case 4: // OPT owner name not root
			b = cat(b[:tail], []byte{1, 'x'}, b[tail:])
		}
		msg = b
	case 14: // an answer record in a query
		m := dnsMsg{id: 1, flags: 0x0100, questions: []dnsQuestion{{name: "example.com.", qtype: 1, class: 1}}}
		b := m.bytes()
		putBE16(b, 6, 1)
		rdlen := pick(r, "dns.ardlen", 4, 0, 3, 5, 65535)
		msg = cat(b, []byte{0xC0, 0x0C}, be16(1), be16(1), be32(60), be16(rdlen), []byte{1, 2, 3, 4})
	case 15: // header only
		msg = msg[:12]
	case 16: // length prefix of a UDP style message on TCP and vice versa
		if tcp {
			return msg
		}
		return cat(be16(len(msg)), msg)
	case 17: // message larger than 64 KiB minus one / UDP size boundary
		n := pick(r, "dns.pad", 500, 4096, 8100, 9000)
		msg = cat(msg, make([]byte, n))
	case 18: // type and class boundary values
		if qend+4 <= len(msg) {
			putBE16(msg, qend, pick(r, "dns.qtype", 0, 41, 250, 251, 65535))
			putBE16(msg, qend+2, pick(r, "dns.qclass", 0, 2, 65535))
		}
	default:
		return GenericMutate(r, in)
	}
	return framed(msg)
}
