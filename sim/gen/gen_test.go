package gen

import (
	"context"
	"crypto/sha256"
	"encoding/binary"
	"encoding/hex"
	"fmt"
	"os"
	"regexp"
	"runtime"
	"sort"
	"strings"
	"testing"

	"github.com/caddyserver/caddy/v2"
	"github.com/mholt/caddy-l4/layer4"
)

// tape is a deterministic Rand: a splitmix64 counter.
type tape struct {
	s splitmix64
	n int
}

func newTape(seed uint64) *tape { return &tape{s: splitmix64(seed)} }

func (t *tape) Choose(n int, _ string) int {
	t.n++
	if n <= 1 {
		return 0
	}
	return int(t.s.next() % uint64(n))
}

// zeroTape always answers 0 (a recorded tape that ran dry), maxTape n-1.
type zeroTape struct{}

func (zeroTape) Choose(int, string) int { return 0 }

type maxTape struct{}

func (maxTape) Choose(n int, _ string) int {
	if n <= 1 {
		return 0
	}
	return n - 1
}

func testContext(t testing.TB) caddy.Context {
	ctx, cancel := caddy.NewContext(caddy.Context{Context: context.Background()})
	t.Cleanup(cancel)
	return ctx
}

// buildMatchers calls p.Matchers with os.Stderr pointing at /dev/null: without
// a caddy config ctx.Logger hands out a zap development logger (the tls
// matcher logs every match at debug level), which binds to the os.Stderr of
// the moment it is created.
func buildMatchers(p *Proto, ctx caddy.Context) ([]NamedMatcher, error) {
	if null, err := os.OpenFile(os.DevNull, os.O_WRONLY, 0); err == nil {
		old := os.Stderr
		os.Stderr = null
		defer func() { os.Stderr = old }()
	}
	return p.Matchers(ctx)
}

func hexOf(b []byte) string {
	const limit = 1600
	if len(b) > limit {
		return fmt.Sprintf("%s...(%d bytes)", hex.EncodeToString(b[:limit]), len(b))
	}
	return hex.EncodeToString(b)
}

// hugeAllocLimit is the largest allocation a mutated input may provoke in
// this test process.
const hugeAllocLimit = 64 << 20

// hugeAlloc tells whether feeding data to the named protocol's matcher would
// make it allocate more than hugeAllocLimit because of a 4 byte length prefix.
// Only the postgres matcher sizes a buffer from such a prefix (big endian,
// minus 4, unsigned wrap-around); the little endian reading is checked too.
func hugeAlloc(proto string, data []byte) (uint64, bool) {
	if proto != "postgres" || len(data) < 4 {
		return 0, false
	}
	be := uint64(binary.BigEndian.Uint32(data) - 4)
	if be > hugeAllocLimit {
		return be, true
	}
	return 0, false
}

var digits = regexp.MustCompile("[0-9]+")

type matcherPanic struct {
	matcher string
	tcp     bool
	input   []byte
	msg     string
}

// safeMatch runs the matcher and converts a panic into a value.
func safeMatch(m layer4.ConnMatcher, data []byte, tcp bool) (matched bool, err error, panicked any, alloc uint64) {
	var before, after runtime.MemStats
	runtime.ReadMemStats(&before)
	defer func() {
		panicked = recover()
		runtime.ReadMemStats(&after)
		alloc = after.TotalAlloc - before.TotalAlloc
	}()
	matched, err = MatchWhole(m, data, tcp)
	return
}

func framings(p *Proto) []bool {
	var out []bool
	if p.TCP {
		out = append(out, true)
	}
	if p.UDP {
		out = append(out, false)
	}
	return out
}

func netName(tcp bool) string {
	if tcp {
		return "tcp"
	}
	return "udp"
}

func TestAllProtosListed(t *testing.T) {
	want := []string{"tls", "http", "ssh", "xmpp", "postgres", "proxy_protocol", "socks4", "socks5", "regexp", "rdp", "dns", "openvpn", "winbox", "wireguard", "quic", "remote_ip", "local_ip", "clock", "not"}
	have := map[string]*Proto{}
	for _, p := range All() {
		if have[p.Name] != nil {
			t.Errorf("duplicate proto %q", p.Name)
		}
		have[p.Name] = p
		if !p.TCP && !p.UDP {
			t.Errorf("%s: neither TCP nor UDP", p.Name)
		}
		if p.Matchers == nil || p.Valid == nil || p.Mutate == nil {
			t.Errorf("%s: incomplete descriptor", p.Name)
		}
	}
	for _, n := range want {
		if have[n] == nil {
			t.Errorf("proto %q missing", n)
		}
	}
	if ByName("dns") == nil || ByName("nope") != nil {
		t.Errorf("ByName broken")
	}
}

// TestValidMatches: every Valid message, delivered whole, matches under every
// configuration that claims MatchesValid.
func TestValidMatches(t *testing.T) {
	ctx := testContext(t)
	const draws = 200
	for _, p := range All() {
		p := p
		t.Run(p.Name, func(t *testing.T) {
			ms, err := buildMatchers(p, ctx)
			if err != nil {
				t.Fatalf("Matchers: %v", err)
			}
			if len(ms) == 0 || !ms[0].MatchesValid {
				t.Fatalf("index 0 must be the default configuration with MatchesValid")
			}
			for _, tcp := range framings(p) {
				r := newTape(uint64(len(p.Name))*7919 + 1)
				distinct := map[string]bool{}
				minLen, maxLen := 1<<30, 0
				filtered := make([]int, len(ms))
				runs := 0
				for i := 0; i < draws; i++ {
					msg := p.Valid(r, tcp)
					if msg == nil {
						t.Fatalf("Valid returned nil")
					}
					minLen, maxLen = min(minLen, len(msg)), max(maxLen, len(msg))
					if p.Slow {
						// real timers inside Match: run each distinct message
						// once, and only a handful of them
						if distinct[string(msg)] || len(distinct) >= slowBudget() {
							distinct[string(msg)] = true
							continue
						}
					}
					distinct[string(msg)] = true
					runs++
					for k, nm := range ms {
						if p.Slow && k > 0 && runs > 3 {
							continue
						}
						matched, err, pv, _ := safeMatch(nm.M, msg, tcp)
						if pv != nil {
							t.Fatalf("%s/%s panicked on a valid message: %v\ninput %s", nm.Name, netName(tcp), pv, hexOf(msg))
						}
						if matched {
							filtered[k]++
						}
						if nm.MatchesValid && (!matched || err != nil) {
							t.Fatalf("%s/%s: valid message %d not matched (matched=%v err=%v)\ninput %s\ntext %q", nm.Name, netName(tcp), i, matched, err, hexOf(msg), clip(msg))
						}
					}
				}
				var sb strings.Builder
				for k, nm := range ms {
					fmt.Fprintf(&sb, "\n    %-70s matched %d/%d", nm.Name, filtered[k], runs)
				}
				t.Logf("%s/%s: %d draws, %d distinct, %d matcher runs, length %d..%d%s", p.Name, netName(tcp), draws, len(distinct), runs, minLen, maxLen, sb.String())
				if len(distinct) < 3 && p.Name != "quic" {
					t.Errorf("%s/%s: only %d distinct valid messages", p.Name, netName(tcp), len(distinct))
				}
			}
		})
	}
}

func slowBudget() int {
	if testing.Short() {
		return 4
	}
	return 12
}

func clip(b []byte) string {
	if len(b) > 200 {
		return string(b[:200]) + "..."
	}
	return string(b)
}

// TestValidBenignTapes: a tape that ran dry (all zeros) and the opposite
// extreme still produce valid messages, and generation terminates.
func TestValidBenignTapes(t *testing.T) {
	ctx := testContext(t)
	for _, p := range All() {
		if p.Slow && testing.Short() {
			continue
		}
		ms, err := buildMatchers(p, ctx)
		if err != nil {
			t.Fatalf("%s: %v", p.Name, err)
		}
		for _, tcp := range framings(p) {
			for name, r := range map[string]Rand{"zero": zeroTape{}, "max": maxTape{}} {
				msg := p.Valid(r, tcp)
				matched, err, pv, _ := safeMatch(ms[0].M, msg, tcp)
				if pv != nil || !matched || err != nil {
					t.Errorf("%s/%s %s tape: matched=%v err=%v panic=%v input %s", p.Name, netName(tcp), name, matched, err, pv, hexOf(msg))
				}
				_ = p.Mutate(r, msg, tcp)
				_ = GenericMutate(r, msg)
				_ = RandomBytes(r, 8192)
			}
		}
	}
	if n, last := MutatePanics(); n != 0 {
		t.Errorf("Mutate panicked %d times in this package, last: %s", n, last)
	}
}

// TestDeterministic: the same tape gives the same bytes.
func TestDeterministic(t *testing.T) {
	for _, p := range All() {
		for _, tcp := range framings(p) {
			for seed := uint64(1); seed <= 5; seed++ {
				a, b := newTape(seed), newTape(seed)
				for i := 0; i < 10; i++ {
					va, vb := p.Valid(a, tcp), p.Valid(b, tcp)
					if string(va) != string(vb) {
						t.Fatalf("%s/%s: Valid not deterministic (seed %d draw %d)\n%s\n%s", p.Name, netName(tcp), seed, i, hexOf(va), hexOf(vb))
					}
					ma, mb := p.Mutate(a, va, tcp), p.Mutate(b, vb, tcp)
					if string(ma) != string(mb) {
						t.Fatalf("%s/%s: Mutate not deterministic (seed %d draw %d)", p.Name, netName(tcp), seed, i)
					}
					ga, gb := GenericMutate(a, va), GenericMutate(b, vb)
					if string(ga) != string(gb) {
						t.Fatalf("%s/%s: GenericMutate not deterministic", p.Name, netName(tcp))
					}
				}
				if a.n != b.n {
					t.Fatalf("%s: tapes diverged", p.Name)
				}
			}
		}
	}
	a, b := newTape(9), newTape(9)
	for i := 0; i < 100; i++ {
		if string(RandomBytes(a, 4096)) != string(RandomBytes(b, 4096)) {
			t.Fatalf("RandomBytes not deterministic")
		}
	}
}

func TestRandomBytes(t *testing.T) {
	r := newTape(42)
	short, total := 0, 0
	seen := map[byte]bool{}
	for i := 0; i < 2000; i++ {
		b := RandomBytes(r, 8192)
		if len(b) > 8192 {
			t.Fatalf("too long: %d", len(b))
		}
		if len(b) <= 64 {
			short++
		}
		total++
		for _, c := range b {
			seen[c] = true
		}
	}
	if short*2 < total {
		t.Errorf("no bias to short inputs: %d of %d are <= 64 bytes", short, total)
	}
	if len(seen) != 256 {
		t.Errorf("only %d distinct byte values", len(seen))
	}
	if len(RandomBytes(r, 0)) != 0 || len(RandomBytes(r, -1)) != 0 {
		t.Errorf("maxLen 0 must give empty output")
	}
}

// TestMutations: Mutate and GenericMutate never panic in this package and
// return something; the matchers are run on the mutated inputs and whatever
// they do (panic, huge allocation) is counted and logged, not failed.
func TestMutations(t *testing.T) {
	ctx := testContext(t)
	rounds := 400
	if testing.Short() {
		rounds = 150
	}
	type allocReport struct {
		matcher string
		tcp     bool
		input   []byte
		bytes   uint64
	}
	var panics []matcherPanic
	var skipped []allocReport
	var bigAllocs []allocReport
	summary := map[string]string{}

	for _, p := range All() {
		ms, err := buildMatchers(p, ctx)
		if err != nil {
			t.Fatalf("%s: %v", p.Name, err)
		}
		nPanics, nSkipped, nRuns, nMatched, nChanged := 0, 0, 0, 0, 0
		seenPanic := map[string]bool{}
		var maxAlloc uint64
		for _, tcp := range framings(p) {
			r := newTape(uint64(len(p.Name))*104729 + 17)
			budget := rounds
			if p.Slow {
				budget = slowBudget()
			}
			for i := 0; i < budget; i++ {
				valid := p.Valid(r, tcp)
				var inputs [][]byte
				m1 := p.Mutate(r, valid, tcp)
				if m1 == nil {
					t.Fatalf("%s: Mutate returned nil", p.Name)
				}
				inputs = append(inputs, m1)
				if !p.Slow {
					g := GenericMutate(r, valid)
					if g == nil {
						t.Fatalf("%s: GenericMutate returned nil", p.Name)
					}
					inputs = append(inputs, g, p.Mutate(r, m1, tcp), RandomBytes(r, 2048))
				}
				for _, in := range inputs {
					if string(in) != string(valid) {
						nChanged++
					}
					for k, nm := range ms {
						if p.Slow && k > 0 {
							continue
						}
						if n, huge := hugeAlloc(p.Name, in); huge {
							nSkipped++
							if len(skipped) < 400 {
								skipped = append(skipped, allocReport{nm.Name, tcp, in, n})
							}
							continue
						}
						matched, _, pv, alloc := safeMatch(nm.M, in, tcp)
						nRuns++
						if matched {
							nMatched++
						}
						maxAlloc = max(maxAlloc, alloc)
						if alloc > 1<<20 {
							bigAllocs = append(bigAllocs, allocReport{nm.Name, tcp, in, alloc})
						}
						if pv != nil {
							nPanics++
							msg := fmt.Sprint(pv)
							if key := msg + string(in); !seenPanic[key] && len(seenPanic) < 5000 {
								seenPanic[key] = true
								panics = append(panics, matcherPanic{nm.Name, tcp, in, msg})
							}
						}
					}
				}
			}
		}
		summary[p.Name] = fmt.Sprintf("%-15s runs %6d  changed-inputs %5d  still-matching %6d  matcher panics %4d  skipped(huge alloc) %4d  max alloc/call %8d B",
			p.Name, nRuns, nChanged, nMatched, nPanics, nSkipped, maxAlloc)
	}

	if n, last := MutatePanics(); n != 0 {
		t.Errorf("Mutate panicked %d times in this package, last: %s", n, last)
	}

	var names []string
	for n := range summary {
		names = append(names, n)
	}
	sort.Strings(names)
	var sb strings.Builder
	sb.WriteString("mutation summary (matcher misbehaviour is reported, not failed):\n")
	for _, n := range names {
		sb.WriteString("  " + summary[n] + "\n")
	}
	// one class per protocol and panic message (numbers blanked), the three
	// shortest inputs of every class are shown
	sort.SliceStable(panics, func(i, j int) bool { return len(panics[i].input) < len(panics[j].input) })
	classOf := func(mp matcherPanic) string {
		proto, _, _ := strings.Cut(mp.matcher, "{")
		return proto + ": " + digits.ReplaceAllString(mp.msg, "N")
	}
	classes := map[string][]matcherPanic{}
	var order []string
	for _, mp := range panics {
		c := classOf(mp)
		if classes[c] == nil {
			order = append(order, c)
		}
		dup := false
		for _, have := range classes[c] {
			dup = dup || string(have.input) == string(mp.input)
		}
		if !dup {
			classes[c] = append(classes[c], mp)
		}
	}
	sort.Strings(order)
	fmt.Fprintf(&sb, "matcher panic classes: %d\n", len(order))
	for _, c := range order {
		fmt.Fprintf(&sb, "  PANIC %s  (%d distinct inputs recorded)\n", c, len(classes[c]))
		for i, mp := range classes[c] {
			if i >= 3 {
				break
			}
			fmt.Fprintf(&sb, "        %s/%s: %s\n        input(%d) %s\n", mp.matcher, netName(mp.tcp), mp.msg, len(mp.input), hexOf(mp.input))
		}
	}
	fmt.Fprintf(&sb, "inputs not fed to the matcher because a 4 byte length prefix would allocate > 64 MiB: %d (showing up to 12 distinct prefixes)\n", len(skipped))
	shown := map[string]bool{}
	for _, s := range skipped {
		key := hex.EncodeToString(s.input[:min(len(s.input), 4)])
		if shown[key] || len(shown) >= 12 {
			continue
		}
		shown[key] = true
		fmt.Fprintf(&sb, "  HUGE %s/%s: would allocate %d bytes; input(%d) %s\n", s.matcher, netName(s.tcp), s.bytes, len(s.input), hexOf(s.input[:min(len(s.input), 48)]))
	}
	sort.SliceStable(bigAllocs, func(i, j int) bool {
		if bigAllocs[i].bytes/(1<<20) != bigAllocs[j].bytes/(1<<20) {
			return bigAllocs[i].bytes > bigAllocs[j].bytes
		}
		return len(bigAllocs[i].input) < len(bigAllocs[j].input)
	})
	fmt.Fprintf(&sb, "matcher calls that allocated more than 1 MiB: %d (showing up to 3 per protocol)\n", len(bigAllocs))
	perProto := map[string]int{}
	for _, s := range bigAllocs {
		proto, _, _ := strings.Cut(s.matcher, "{")
		if perProto[proto]++; perProto[proto] > 3 {
			continue
		}
		fmt.Fprintf(&sb, "  ALLOC %s/%s: %d bytes; input(%d) %s\n", s.matcher, netName(s.tcp), s.bytes, len(s.input), hexOf(s.input[:min(len(s.input), 400)]))
	}
	t.Log(sb.String())
	if path := os.Getenv("GEN_REPORT"); path != "" {
		_ = os.WriteFile(path, []byte(sb.String()), 0o644)
	}
}

// TestMatchWholeIsPure: MatchWhole does not touch the caller's bytes, never
// reaches the fake socket, and is repeatable.
func TestMatchWholeIsPure(t *testing.T) {
	ctx := testContext(t)
	for _, p := range All() {
		if p.Slow {
			continue
		}
		ms, err := buildMatchers(p, ctx)
		if err != nil {
			t.Fatal(err)
		}
		for _, tcp := range framings(p) {
			r := newTape(77)
			for i := 0; i < 20; i++ {
				msg := p.Valid(r, tcp)
				orig := clone(msg)
				a, errA := MatchWhole(ms[0].M, msg, tcp)
				b, errB := MatchWhole(ms[0].M, msg, tcp)
				if a != b || (errA == nil) != (errB == nil) {
					t.Errorf("%s: not repeatable", p.Name)
				}
				if string(orig) != string(msg) {
					t.Errorf("%s: MatchWhole modified its input", p.Name)
				}
			}
		}
	}
	// a proper prefix of a stream message must ask for more data, not touch the socket
	conn := NewFakeConn(true)
	cx := layer4.WrapConnection(conn, []byte("SS"), nopLogger)
	ms, _ := buildMatchers(protoSSH(), ctx)
	matched, err := layer4.MatcherSet{ms[0].M}.Match(cx)
	if matched || err != layer4.ErrConsumedAllPrefetchedBytes {
		t.Errorf("prefix: matched=%v err=%v", matched, err)
	}
	if conn.Reads() != 0 {
		t.Errorf("matcher reached the socket %d times", conn.Reads())
	}
}

// TestNoTrailingFlag: the NoTrailing flag describes the default matcher.
func TestNoTrailingFlag(t *testing.T) {
	ctx := testContext(t)
	for _, p := range All() {
		if p.Slow {
			continue
		}
		ms, err := buildMatchers(p, ctx)
		if err != nil {
			t.Fatal(err)
		}
		for _, tcp := range framings(p) {
			r := newTape(5)
			rejected, total := 0, 0
			for i := 0; i < 100; i++ {
				msg := append(p.Valid(r, tcp), "\x00trailing"...)
				matched, _, pv, _ := safeMatch(ms[0].M, msg, tcp)
				total++
				if !matched && pv == nil {
					rejected++
				}
			}
			switch {
			case p.NoTrailing && tcp && p.Name == "winbox" && rejected*2 > total:
				// two-chunk winbox messages (user names of 222+ bytes) tolerate
				// a few trailing bytes, the common one-chunk messages do not
			case p.NoTrailing && tcp && rejected != total:
				t.Errorf("%s/%s: NoTrailing set but %d of %d messages with trailing bytes still matched", p.Name, netName(tcp), total-rejected, total)
			case !p.NoTrailing && rejected != 0:
				t.Errorf("%s/%s: NoTrailing not set but %d of %d messages with trailing bytes were rejected", p.Name, netName(tcp), rejected, total)
			}
		}
	}
}

// TestMutateTotal: the protocol specific Mutate functions cope with any input
// (empty, tiny, random, mutations of mutations), without help from the
// recover() in harden.
func TestMutateTotal(t *testing.T) {
	for _, p := range allProtos() { // not hardened: a panic fails the test
		for _, tcp := range framings(p) {
			r := newTape(uint64(len(p.Name)) + 99)
			for i := 0; i < 3000; i++ {
				var in []byte
				switch i % 4 {
				case 0:
					in = RandomBytes(r, 300)
				case 1:
					in = p.Valid(r, tcp)[:0]
				case 2:
					v := p.Valid(r, tcp)
					in = v[:choose(r, len(v)+1, "cut")]
				default:
					in = p.Valid(r, tcp)
				}
				for depth := 0; depth < 4; depth++ {
					in = p.Mutate(r, in, tcp)
					if in == nil {
						in = []byte{}
					}
					if len(in) > 1<<20 {
						break
					}
				}
			}
		}
	}
}

// TestDigest logs a digest of what the generators produce for fixed tapes; the
// values must be the same in every process (compare two runs by hand, or set
// GEN_DIGEST to the expected overall value).
func TestDigest(t *testing.T) {
	all := sha256.New()
	for _, p := range All() {
		h := sha256.New()
		for _, tcp := range framings(p) {
			r := newTape(2024)
			for i := 0; i < 60; i++ {
				v := p.Valid(r, tcp)
				h.Write(v)
				h.Write(p.Mutate(r, v, tcp))
				h.Write(GenericMutate(r, v))
			}
		}
		sum := h.Sum(nil)
		all.Write(sum)
		t.Logf("%-15s %x", p.Name, sum[:8])
	}
	total := fmt.Sprintf("%x", all.Sum(nil)[:8])
	t.Logf("overall %s", total)
	if want := os.Getenv("GEN_DIGEST"); want != "" && want != total {
		t.Errorf("digest %s, want %s: generation is not reproducible across processes", total, want)
	}
}

func TestTLSMatcherHook(t *testing.T) {
	ctx := testContext(t)
	p := ByName("tls")
	ms, err := buildMatchers(p, ctx)
	if err != nil {
		t.Fatal(err)
	}
	custom := ms[1].M // any provisioned matcher will do
	NewTLSMatcher = func() layer4.ConnMatcher { return custom }
	defer func() { NewTLSMatcher = nil }()
	ms2, err := buildMatchers(p, ctx)
	if err != nil {
		t.Fatal(err)
	}
	if ms2[0].M != custom {
		t.Errorf("NewTLSMatcher hook not used for the default configuration")
	}
}
