package gen

import (
	"github.com/caddyserver/caddy/v2"
	"github.com/mholt/caddy-l4/modules/l4openvpn"
)

// OpenVPNCaptured are the client reset packets captured in the repo's tests
// (UDP framing: no length prefix). known=true: produced with the sample group
// key / server key, i.e. they also authenticate under the keyed configurations.
var OpenVPNCaptured = []struct {
	Name  string
	Data  []byte
	Known bool
}{
	{"plain1", ovpn_plainPacket1, true}, {"plain2", ovpn_plainPacket2, true}, {"plain3", ovpn_plainPacket3, true}, {"plain4", ovpn_plainPacket4, true},
	{"authMD5-1", ovpn_authMD5Packet1, true}, {"authMD5-2", ovpn_authMD5Packet2, true},
	{"authSHA1-1", ovpn_authSHA1Packet1, true}, {"authSHA1-2", ovpn_authSHA1Packet2, true},
	{"authRIPEMD160-1", ovpn_authRIPEMD160Packet1, true}, {"authRIPEMD160-2", ovpn_authRIPEMD160Packet2, true},
	{"authSHA224-1", ovpn_authSHA224Packet1, true}, {"authSHA224-2", ovpn_authSHA224Packet2, true},
	{"authSHA256-1", ovpn_authSHA256Packet1, true}, {"authSHA256-2", ovpn_authSHA256Packet2, true},
	{"authSHA384-1", ovpn_authSHA384Packet1, true}, {"authSHA384-2", ovpn_authSHA384Packet2, true},
	{"authSHA512-1", ovpn_authSHA512Packet1, true}, {"authSHA512-2", ovpn_authSHA512Packet2, true},
	{"authSHA512224-1", ovpn_authSHA512224Packet1, true}, {"authSHA512224-2", ovpn_authSHA512224Packet2, true},
	{"authSHA512256-1", ovpn_authSHA512256Packet1, true}, {"authSHA512256-2", ovpn_authSHA512256Packet2, true},
	{"authSHA3224-1", ovpn_authSHA3224Packet1, true}, {"authSHA3224-2", ovpn_authSHA3224Packet2, true},
	{"authSHA3256-1", ovpn_authSHA3256Packet1, true}, {"authSHA3256-2", ovpn_authSHA3256Packet2, true},
	{"authSHA3384-1", ovpn_authSHA3384Packet1, true}, {"authSHA3384-2", ovpn_authSHA3384Packet2, true},
	{"authSHA3512-1", ovpn_authSHA3512Packet1, true}, {"authSHA3512-2", ovpn_authSHA3512Packet2, true},
	{"authBLAKE2s256-1", ovpn_authBLAKE2s256Packet1, true}, {"authBLAKE2s256-2", ovpn_authBLAKE2s256Packet2, true},
	{"authBLAKE2b512-1", ovpn_authBLAKE2b512Packet1, true}, {"authBLAKE2b512-2", ovpn_authBLAKE2b512Packet2, true},
	{"authMD5SHA1-1", ovpn_authMD5SHA1Packet1, false}, {"authMD5SHA1-2", ovpn_authMD5SHA1Packet2, false},
	{"authSM3-1", ovpn_authSM3Packet1, false}, {"authSM3-2", ovpn_authSM3Packet2, false},
	{"authWhirlpool-1", ovpn_authWhirlpoolPacket1, false}, {"authWhirlpool-2", ovpn_authWhirlpoolPacket2, false},
	{"crypt1", ovpn_cryptPacket1, true}, {"crypt2", ovpn_cryptPacket2, true},
	{"crypt3", ovpn_cryptPacket3, false}, {"crypt4", ovpn_cryptPacket4, false},
	{"authSHA512-3", ovpn_authSHA512Packet3, false}, {"authSHA512-4", ovpn_authSHA512Packet4, false},
	{"authSHA384-3", ovpn_authSHA384Packet3, false}, {"authSHA384-4", ovpn_authSHA384Packet4, false},
	{"authMD5SHA1-3", ovpn_authMD5SHA1Packet3, false}, {"authMD5SHA1-4", ovpn_authMD5SHA1Packet4, false},
	{"authSHA256-3", ovpn_authSHA256Packet3, false}, {"authSHA256-4", ovpn_authSHA256Packet4, false},
	{"authSHA224-3", ovpn_authSHA224Packet3, false}, {"authSHA224-4", ovpn_authSHA224Packet4, false},
	{"authSHA1-3", ovpn_authSHA1Packet3, false}, {"authSHA1-4", ovpn_authSHA1Packet4, false},
	{"authMD5-3", ovpn_authMD5Packet3, false}, {"authMD5-4", ovpn_authMD5Packet4, false},
	{"crypt2-5", ovpn_crypt2Packet5, true}, {"crypt2-6", ovpn_crypt2Packet6, true},
}

func protoOpenVPN() *Proto {
	return &Proto{
		Name: "openvpn", TCP: true, UDP: true, NoTrailing: true,
		Matchers: func(ctx caddy.Context) ([]NamedMatcher, error) {
			// The matcher compares replay timestamps with time.Now() unless told
			// not to; the default configuration returned here ignores them so that
			// captured and generated packets match regardless of the clock.
			return provisionAll(ctx, []NamedMatcher{
				{Name: "openvpn{ignore_timestamp}", M: &l4openvpn.MatchOpenVPN{IgnoreTimestamp: true}, MatchesValid: true},
				{Name: "openvpn", M: &l4openvpn.MatchOpenVPN{}},
				{Name: "openvpn{ignore_timestamp,modes=plain}", M: &l4openvpn.MatchOpenVPN{IgnoreTimestamp: true, Modes: []string{"plain"}}},
				{Name: "openvpn{ignore_timestamp,modes=auth,crypt,crypt2}", M: &l4openvpn.MatchOpenVPN{IgnoreTimestamp: true, Modes: []string{"auth", "crypt", "crypt2"}}},
				{Name: "openvpn{ignore_timestamp,modes=crypt2}", M: &l4openvpn.MatchOpenVPN{IgnoreTimestamp: true, Modes: []string{"crypt2"}}},
				{Name: "openvpn{ignore_timestamp,group_key=sample}", M: &l4openvpn.MatchOpenVPN{IgnoreTimestamp: true, GroupKey: ovpnGroupKey12Hex}},
				{Name: "openvpn{ignore_timestamp,group_key=sample,auth_digest=sha256}", M: &l4openvpn.MatchOpenVPN{IgnoreTimestamp: true, GroupKey: ovpnGroupKey12Hex, AuthDigest: "sha256"}},
				{Name: "openvpn{ignore_timestamp,group_key=sample,group_key_direction=bidi}", M: &l4openvpn.MatchOpenVPN{IgnoreTimestamp: true, GroupKey: ovpnGroupKey12Hex, GroupKeyDirection: "bidi"}},
				{Name: "openvpn{ignore_timestamp,server_key=sample}", M: &l4openvpn.MatchOpenVPN{IgnoreTimestamp: true, ServerKey: ovpn_serverKey56Base64}},
				{Name: "openvpn{ignore_timestamp,client_key=sample}", M: &l4openvpn.MatchOpenVPN{IgnoreTimestamp: true, ClientKeys: []string{ovpn_clientKey56Base64}}},
				{Name: "openvpn{ignore_timestamp,ignore_crypto,group_key=sample,server_key=sample}", M: &l4openvpn.MatchOpenVPN{IgnoreTimestamp: true, IgnoreCrypto: true, GroupKey: ovpnGroupKey12Hex, ServerKey: ovpn_serverKey56Base64}, MatchesValid: true},
			})
		},
		Valid:  ovpnValid,
		Mutate: ovpnMutate,
	}
}

const (
	ovpnOpResetV2 = 7 << 3
	ovpnOpResetV3 = 10 << 3
)

var ovpnHMACSizes = []int{16, 20, 28, 32, 36, 48, 64}

func ovpnFrame(msg []byte, tcp bool) []byte {
	if tcp {
		return cat(be16(len(msg)), msg)
	}
	return msg
}

func ovpnSessionID(r Rand) []byte {
	sid := opaque(r, 8, "ovpn.sid")
	sid[0] |= 1 // never zero
	return sid
}

func ovpnTimestamp(r Rand) []byte {
	return be32(pick[uint32](r, "ovpn.ts", 1726674217, 0, 1, 0x7fffffff, 0xffffffff, 1790000000))
}

func ovpnPlain(r Rand) []byte {
	return cat([]byte{ovpnOpResetV2}, ovpnSessionID(r), []byte{0}, be32(0))
}

func ovpnAuth(r Rand) []byte {
	n := pick(r, "ovpn.hmaclen", ovpnHMACSizes...)
	return cat([]byte{ovpnOpResetV2}, ovpnSessionID(r), opaque(r, n, "ovpn.hmac"), be32(1), ovpnTimestamp(r), []byte{0}, be32(0))
}

func ovpnCrypt(r Rand, op byte, pid uint32) []byte {
	return cat([]byte{op}, ovpnSessionID(r), be32(pid), ovpnTimestamp(r), opaque(r, 32, "ovpn.hmac"), opaque(r, 5, "ovpn.enc"))
}

func ovpnCrypt2(r Rand) []byte {
	// wrapped client key: 32 byte tag, at least 256 encrypted bytes, own length
	enc := pick(r, "ovpn.wkclen", 256, 257, 261, 300, 512, 990)
	wkc := cat(opaque(r, 32, "ovpn.wkctag"), opaque(r, enc, "ovpn.wkc"))
	wkc = cat(wkc, be16(len(wkc)+2))
	return cat(ovpnCrypt(r, ovpnOpResetV3, pick[uint32](r, "ovpn.pid", 1, 0x0f000001)), wkc)
}

func ovpnValid(r Rand, tcp bool) []byte {
	var msg []byte
	switch choose(r, 6, "ovpn.kind") {
	case 0:
		msg = ovpnPlain(r)
	case 1:
		msg = ovpnAuth(r)
	case 2:
		msg = ovpnCrypt(r, ovpnOpResetV2, 1)
	case 3:
		msg = ovpnCrypt2(r)
	default:
		msg = clone(OpenVPNCaptured[choose(r, len(OpenVPNCaptured), "ovpn.captured")].Data)
	}
	return ovpnFrame(msg, tcp)
}

func ovpnMutate(r Rand, in []byte, tcp bool) []byte {
	msg := clone(in)
	if tcp {
		if len(msg) < 2 {
			return GenericMutate(r, in)
		}
		msg = msg[2:]
	}
	if len(msg) < 14 {
		return GenericMutate(r, in)
	}
	switch choose(r, 17, "ovpn.mut") {
	case 0: // TCP length prefix, message untouched
		if tcp {
			return cat(be16(pick(r, "ovpn.prefix", 0, 1, 13, 14, 15, len(msg)-1, len(msg)+1, 86, 87, 343, 344, 1078, 1079, 65535)), msg)
		}
		return msg[:choose(r, len(msg), "ovpn.cut")]
	case 1: // TCP length prefix with the message following it
		if tcp {
			return mutateLenField(r, in, []lenField{{off: 0, width: 2}}, "ovpn.prefixfollow")
		}
		return append(msg, 0)
	case 2: // every opcode, every key id
		msg[0] = byte(choose(r, 32, "ovpn.opcode"))<<3 | byte(pick(r, "ovpn.keyid", 0, 0, 1, 7))
	case 3: // V2 <-> V3
		msg[0] ^= ovpnOpResetV2 ^ ovpnOpResetV3
	case 4: // session id zero
		copy(msg[1:9], make([]byte, 8))
	case 5: // one byte more / less
		if coin(r, "ovpn.longer") {
			msg = append(msg, pick[byte](r, "ovpn.extra", 0, 1, 0xff))
		} else {
			msg = msg[:len(msg)-1]
		}
	case 6: // HMAC sizes no digest has
		n := pick(r, "ovpn.badhmac", 0, 1, 15, 17, 24, 33, 63, 65, 72)
		msg = cat([]byte{ovpnOpResetV2}, ovpnSessionID(r), opaque(r, n, "ovpn.hmac"), be32(1), ovpnTimestamp(r), []byte{0}, be32(0))
	case 7: // replay packet id / acked packet count / packet id
		tail := len(msg) - pick(r, "ovpn.tailoff", 1, 5, 9, 13)
		if tail > 9 {
			msg[tail] = pick[byte](r, "ovpn.tailbyte", 1, 2, 0x0f, 0xff)
		}
	case 8: // wrapped key length field
		if msg[0] == ovpnOpResetV3 && len(msg) > 56 && coin(r, "ovpn.wkclen-generic") {
			return ovpnFrame(mutateLenField(r, msg, []lenField{{off: len(msg) - 2, width: 2}}, "ovpn.wkclen"), tcp)
		}
		if msg[0] != ovpnOpResetV3 || len(msg) <= 56 {
			msg = ovpnCrypt2(r)
		}
		// the trailing length against the limits of the format and against the message it sits in
		n := len(msg)
		putBE16(msg, n-2, pick(r, "ovpn.badwkclen", 0, 289, 290, n-2, n-1, n, n+1, n+60, 1024, 1025, 65535))
	case 9: // wrapped key size boundary values
		enc := pick(r, "ovpn.wkcsize", 0, 1, 255, 256, 989, 990, 991, 2000)
		wkc := cat(opaque(r, 32, "ovpn.wkctag"), opaque(r, enc, "ovpn.wkc"))
		wkc = cat(wkc, be16(len(wkc)+2))
		msg = cat(ovpnCrypt(r, ovpnOpResetV3, 1), wkc)
	case 10: // control message sizes between the modes
		n := pick(r, "ovpn.size", 14, 15, 37, 38, 53, 54, 55, 85, 86, 87, 100, 343, 344)
		msg = cat([]byte{pick[byte](r, "ovpn.sizeop", ovpnOpResetV2, ovpnOpResetV3)}, ovpnSessionID(r), opaque(r, n-9, "ovpn.fill"))
	case 11: // header only
		msg = msg[:1]
	case 12: // timestamp of now-ish encoded wrongly (little endian)
		msg = cat([]byte{ovpnOpResetV2}, ovpnSessionID(r), be32(1), le32(1726674217), opaque(r, 32, "ovpn.hmac"), opaque(r, 5, "ovpn.enc"))
	case 13: // UDP message behind a TCP prefix and vice versa
		if tcp {
			return msg
		}
		return cat(be16(len(msg)), msg)
	case 14: // two messages in a row
		return cat(ovpnFrame(msg, tcp), ovpnFrame(msg, tcp))
	case 15: // wrapped client key cut short, its length field kept consistent (a genuine client reset, truncated)
		if msg[0] != ovpnOpResetV3 || len(msg) < 120 {
			msg = clone(pick(r, "ovpn.c2base", ovpn_crypt2Packet5, ovpn_crypt2Packet6))
		}
		k := 1 + choose(r, 12, "ovpn.wkccut")
		wl := int(msg[len(msg)-2])<<8 | int(msg[len(msg)-1])
		if k < len(msg)-60 && wl > k {
			msg = cat(msg[:len(msg)-2-k], be16(wl-k))
		}
	default:
		return GenericMutate(r, in)
	}
	return ovpnFrame(msg, tcp)
}
