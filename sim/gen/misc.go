package gen

import (
	"github.com/caddyserver/caddy/v2"
	"github.com/mholt/caddy-l4/layer4"
	"github.com/mholt/caddy-l4/modules/l4clock"
	"github.com/mholt/caddy-l4/modules/l4ssh"
)

// The matchers in this file do not look at the bytes of the connection; their
// default configurations are chosen to match every connection (every address,
// the whole day), so that Valid() is any message at all.

func anyMessage(r Rand, _ bool) []byte {
	switch choose(r, 4, "any.kind") {
	case 0:
		return []byte("hello\n")
	case 1:
		return []byte{}
	case 2:
		return []byte("GET / HTTP/1.1\r\nHost: example.com\r\n\r\n")
	default:
		return RandomBytes(r, 64)
	}
}

func anyMutate(r Rand, msg []byte, _ bool) []byte { return GenericMutate(r, msg) }

func protoRemoteIP() *Proto {
	return &Proto{
		Name: "remote_ip", TCP: true, UDP: true,
		Matchers: func(ctx caddy.Context) ([]NamedMatcher, error) {
			return provisionAll(ctx, []NamedMatcher{
				{Name: "remote_ip{ranges=0.0.0.0/0,::/0}", M: &layer4.MatchRemoteIP{Ranges: []string{"0.0.0.0/0", "::/0"}}, MatchesValid: true},
				{Name: "remote_ip{ranges=192.0.2.0/24}", M: &layer4.MatchRemoteIP{Ranges: []string{"192.0.2.0/24"}}},
				{Name: "remote_ip{ranges=10.0.0.0/8,127.0.0.1,::1}", M: &layer4.MatchRemoteIP{Ranges: []string{"10.0.0.0/8", "127.0.0.1", "::1"}}},
				{Name: "remote_ip{ranges=}", M: &layer4.MatchRemoteIP{}},
			})
		},
		Valid:  anyMessage,
		Mutate: anyMutate,
	}
}

func protoLocalIP() *Proto {
	return &Proto{
		Name: "local_ip", TCP: true, UDP: true,
		Matchers: func(ctx caddy.Context) ([]NamedMatcher, error) {
			return provisionAll(ctx, []NamedMatcher{
				{Name: "local_ip{ranges=0.0.0.0/0,::/0}", M: &layer4.MatchLocalIP{Ranges: []string{"0.0.0.0/0", "::/0"}}, MatchesValid: true},
				{Name: "local_ip{ranges=198.51.100.0/24}", M: &layer4.MatchLocalIP{Ranges: []string{"198.51.100.0/24"}}},
				{Name: "local_ip{ranges=10.0.0.0/8,127.0.0.1,::1}", M: &layer4.MatchLocalIP{Ranges: []string{"10.0.0.0/8", "127.0.0.1", "::1"}}},
			})
		},
		Valid:  anyMessage,
		Mutate: anyMutate,
	}
}

func protoClock() *Proto {
	return &Proto{
		Name: "clock", TCP: true, UDP: true,
		Matchers: func(ctx caddy.Context) ([]NamedMatcher, error) {
			return provisionAll(ctx, []NamedMatcher{
				{Name: "clock{after=00:00:00,before=00:00:00}", M: &l4clock.MatchClock{After: "00:00:00", Before: "00:00:00"}, MatchesValid: true},
				{Name: "clock{after=08:00:00,before=18:00:00,timezone=Europe/Riga}", M: &l4clock.MatchClock{After: "08:00:00", Before: "18:00:00", Timezone: "Europe/Riga"}},
				{Name: "clock{after=12:00:00,before=00:00:00,timezone=+05:30}", M: &l4clock.MatchClock{After: "12:00:00", Before: "00:00:00", Timezone: "+05:30"}},
				{Name: "clock{after=00:00:00,before=12:00:00}", M: &l4clock.MatchClock{After: "00:00:00", Before: "12:00:00"}},
			})
		},
		Valid:  anyMessage,
		Mutate: anyMutate,
	}
}

// protoNot exercises layer4.MatchNot around the ssh matcher: everything that
// has at least four bytes and does not start with "SSH-" matches.
func protoNot() *Proto {
	not := func(ms ...layer4.ConnMatcher) *layer4.MatchNot {
		return &layer4.MatchNot{MatcherSets: []layer4.MatcherSet{ms}}
	}
	return &Proto{
		Name: "not", TCP: true, UDP: true,
		Matchers: func(ctx caddy.Context) ([]NamedMatcher, error) {
			// MatchNot.Provision loads modules from raw JSON; the matcher sets are
			// filled in directly here, so it is not called.
			return []NamedMatcher{
				{Name: "not{ssh}", M: not(&l4ssh.MatchSSH{}), MatchesValid: true},
				{Name: "not{not{ssh}}", M: not(not(&l4ssh.MatchSSH{}))},
			}, nil
		},
		Valid: func(r Rand, _ bool) []byte {
			switch choose(r, 4, "not.kind") {
			case 0:
				return []byte("GET / HTTP/1.1\r\nHost: example.com\r\n\r\n")
			case 1:
				return []byte("SSH_2.0-almost\r\n")
			case 2:
				return []byte("ssh-2.0-lowercase\r\n")
			default:
				b := opaque(r, between(r, 4, 64, "not.len"), "not.seed")
				if string(b[:4]) == "SSH-" {
					b[0] = 's'
				}
				return b
			}
		},
		Mutate: func(r Rand, msg []byte, _ bool) []byte {
			switch choose(r, 4, "not.mut") {
			case 0:
				return cat([]byte("SSH-"), msg)
			case 1:
				return clone(msg[:min(len(msg), choose(r, 4, "not.cut"))])
			case 2:
				return sshValid(r, true)
			default:
				return GenericMutate(r, msg)
			}
		},
	}
}
