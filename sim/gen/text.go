package gen

import (
	"bytes"
	"encoding/json"
	"fmt"
	"strings"

	"github.com/caddyserver/caddy/v2"
	"github.com/caddyserver/caddy/v2/modules/caddyhttp"
	"github.com/mholt/caddy-l4/modules/l4http"
	"github.com/mholt/caddy-l4/modules/l4proxyprotocol"
	"github.com/mholt/caddy-l4/modules/l4regexp"
	"github.com/mholt/caddy-l4/modules/l4ssh"
	"github.com/mholt/caddy-l4/modules/l4xmpp"
	"golang.org/x/net/http2"
	"golang.org/x/net/http2/hpack"
)

// ---------------------------------------------------------------------------
// ssh

func protoSSH() *Proto {
	return &Proto{
		Name: "ssh", TCP: true,
		Matchers: func(ctx caddy.Context) ([]NamedMatcher, error) {
			return provisionAll(ctx, []NamedMatcher{{Name: "ssh", M: &l4ssh.MatchSSH{}, MatchesValid: true}})
		},
		Valid:  sshValid,
		Mutate: sshMutate,
	}
}

func sshValid(r Rand, _ bool) []byte {
	proto := pick(r, "ssh.proto", "2.0", "1.99", "1.5")
	soft := pick(r, "ssh.soft", "OpenSSH_9.6", "OpenSSH_8.9p1", "dropbear_2022.83", "libssh2_1.11.0", "PuTTY_Release_0.80", "Go", "paramiko_3.4.0")
	if oneIn(r, 4, "ssh.softrand") {
		soft = rstring(r, between(r, 1, 40, "ssh.softlen"), alnum+"_.+-", "ssh.softch")
	}
	s := "SSH-" + proto + "-" + soft
	if coin(r, "ssh.comment") {
		s += " " + pick(r, "ssh.commenttext", "Ubuntu-3ubuntu13.5", "Debian-5", "FreeBSD-20240318", "hello world")
	}
	s += pick(r, "ssh.eol", "\r\n", "\n", "")
	out := []byte(s)
	if coin(r, "ssh.kex") {
		// start of a binary packet (SSH_MSG_KEXINIT) right behind the banner
		pay := cat([]byte{20}, opaque(r, 16, "ssh.cookie"), be32(uint32(11)), []byte("curve25519-"))
		pad := 4 + (8-(len(pay)+5+4)%8)%8
		out = cat(out, be32(uint32(len(pay)+pad+1)), []byte{byte(pad)}, pay, make([]byte, pad))
	}
	return out
}

func sshMutate(r Rand, msg []byte, _ bool) []byte {
	out := clone(msg)
	switch choose(r, 8, "ssh.mut") {
	case 0: // lower case prefix
		copy(out, bytes.ToLower(out[:min(4, len(out))]))
	case 1: // cut inside the 4 byte prefix
		out = out[:choose(r, min(4, len(out))+1, "ssh.cut")]
	case 2: // one prefix byte replaced
		if len(out) > 0 {
			out[choose(r, min(4, len(out)), "ssh.pos")] = pick[byte](r, "ssh.byte", 0, ' ', 's', 'S', '-', 0xff)
		}
	case 3: // RFC 4253 allows lines before the version string
		out = cat([]byte("Welcome to the machine\r\n"), out)
	case 4: // leading whitespace / NUL
		out = cat([]byte{pick[byte](r, "ssh.lead", ' ', 0, '\n', '\r')}, out)
	case 5: // exactly the prefix
		out = []byte("SSH-")
	case 6: // SSH without the dash, padded to 4
		out = cat([]byte("SSH"), []byte{pick[byte](r, "ssh.dash", 0, '_', '1', 0x2d^0x80)}, out[min(4, len(out)):])
	default:
		out = GenericMutate(r, msg)
	}
	return out
}

// ---------------------------------------------------------------------------
// xmpp

func protoXMPP() *Proto {
	return &Proto{
		Name: "xmpp", TCP: true,
		Matchers: func(ctx caddy.Context) ([]NamedMatcher, error) {
			return provisionAll(ctx, []NamedMatcher{{Name: "xmpp", M: &l4xmpp.MatchXMPP{}, MatchesValid: true}})
		},
		Valid:  xmppValid,
		Mutate: xmppMutate,
	}
}

// the matcher wants 50 bytes with "jabber" among them
const xmppWindow = 50

func xmppValid(r Rand, _ bool) []byte {
	q := pick(r, "xmpp.quote", "'", "\"")
	attr := func(k, v string) string { return k + "=" + q + v + q }
	ns := attr("xmlns", pick(r, "xmpp.ns", "jabber:client", "jabber:server", "jabber:component:accept"))
	others := []string{
		attr("xmlns:stream", "http://etherx.jabber.org/streams"),
		attr("to", hostName(r, "xmpp.to")),
		attr("version", pick(r, "xmpp.version", "1.0", "1.1", "0.9")),
	}
	if coin(r, "xmpp.from") {
		others = append(others, attr("from", rstring(r, between(r, 1, 8, "xmpp.userlen"), alnumLower, "xmpp.user")+"@"+hostName(r, "xmpp.fromhost")))
	}
	if coin(r, "xmpp.lang") {
		others = append(others, attr("xml:lang", pick(r, "xmpp.langv", "en", "de", "lv")))
	}
	// rotate the optional attributes
	k := choose(r, len(others), "xmpp.rot")
	others = append(others[k:], others[:k]...)

	decl := pick(r, "xmpp.decl", "", "<?xml version="+q+"1.0"+q+"?>")
	var attrs []string
	if coin(r, "xmpp.nsfirst") {
		attrs = append([]string{ns}, others...)
	} else {
		// namespace second: only fine if "jabber" still lands in the window
		attrs = append([]string{others[0], ns}, others[1:]...)
	}
	build := func(decl string, attrs []string) string {
		return decl + "<stream:stream " + strings.Join(attrs, " ") + ">"
	}
	s := build(decl, attrs)
	if i := strings.Index(s, "jabber"); i < 0 || i+len("jabber") > xmppWindow {
		s = build(decl, append([]string{ns}, others...))
	}
	if i := strings.Index(s, "jabber"); i < 0 || i+len("jabber") > xmppWindow {
		s = build("", append([]string{ns}, others...))
	}
	for len(s) < xmppWindow {
		s += "\n"
	}
	if coin(r, "xmpp.more") {
		s += "<starttls xmlns='urn:ietf:params:xml:ns:xmpp-tls'/>"
	}
	return []byte(s)
}

func xmppMutate(r Rand, msg []byte, _ bool) []byte {
	out := clone(msg)
	i := bytes.Index(out, []byte("jabber"))
	switch choose(r, 8, "xmpp.mut") {
	case 0: // one byte short of the window
		out = out[:min(len(out), xmppWindow-1)]
	case 1: // exactly the window
		out = out[:min(len(out), xmppWindow)]
	case 2: // push the keyword across the window boundary
		if i >= 0 {
			pad := xmppWindow - i - between(r, 0, 6, "xmpp.shift")
			if pad > 0 {
				out = cat(out[:i], bytes.Repeat([]byte(" "), pad), out[i:])
			}
		}
	case 3: // upper case keyword
		if i >= 0 {
			copy(out[i:], "JABBER")
		}
	case 4: // keyword removed
		out = bytes.ReplaceAll(out, []byte("jabber"), []byte("jabb3r"))
	case 5: // keyword cut by the end of data
		if i >= 0 {
			out = out[:i+choose(r, 6, "xmpp.cutkw")]
		}
	case 6: // a NUL in front
		out = cat([]byte{0}, out)
	default:
		out = GenericMutate(r, msg)
	}
	return out
}

// ---------------------------------------------------------------------------
// regexp

// The default regexp configuration uses the matcher's default count (4 bytes).
// Note: the matcher runs its pattern through caddy's placeholder replacer at
// provision time, which EATS regexp quantifiers in braces ("[a-z]{2}" becomes
// "[a-z]"), so the patterns used here avoid braces.
const (
	RegexpDefaultPattern = "^L4[a-z0-9][a-z0-9]$"
)

func protoRegexp() *Proto {
	return &Proto{
		Name: "regexp", TCP: true, UDP: true,
		Matchers: func(ctx caddy.Context) ([]NamedMatcher, error) {
			return provisionAll(ctx, []NamedMatcher{
				{Name: "regexp{pattern=" + RegexpDefaultPattern + "}", M: &l4regexp.MatchRegexp{Pattern: RegexpDefaultPattern}, MatchesValid: true},
				{Name: "regexp{pattern=^L4,count=2}", M: &l4regexp.MatchRegexp{Pattern: "^L4", Count: 2}, MatchesValid: true},
				{Name: "regexp{pattern=^L4[a-z0-9][a-z0-9]\\r?\\n,count=6}", M: &l4regexp.MatchRegexp{Pattern: "^L4[a-z0-9][a-z0-9]\\r?\\n", Count: 6}},
				{Name: "regexp{pattern=\\x00\\x00\\x00$,count=16}", M: &l4regexp.MatchRegexp{Pattern: "\\x00\\x00\\x00$", Count: 16}},
				{Name: "regexp{pattern=^L4[a-z0-9]{2}$ (braces eaten by the replacer)}", M: &l4regexp.MatchRegexp{Pattern: "^L4[a-z0-9]{2}$"}},
				{Name: "regexp{pattern=(?s)^.*$,count=65535}", M: &l4regexp.MatchRegexp{Pattern: "(?s)^.*$", Count: 65535}},
			})
		},
		Valid: func(r Rand, _ bool) []byte {
			out := []byte("L4" + rstring(r, 2, alnumLower, "regexp.ch"))
			switch choose(r, 4, "regexp.tail") {
			case 1:
				out = append(out, '\n')
			case 2:
				out = append(out, "\r\nhello\r\n"...)
			case 3:
				out = append(out, RandomBytes(r, 32)...)
			}
			return out
		},
		Mutate: func(r Rand, msg []byte, _ bool) []byte {
			out := clone(msg)
			switch choose(r, 6, "regexp.mut") {
			case 0:
				out = out[:choose(r, min(4, len(out))+1, "regexp.cut")]
			case 1:
				if len(out) >= 4 {
					out[2+choose(r, 2, "regexp.pos")] = pick[byte](r, "regexp.byte", 'A', '\n', 0, 0xff, '-')
				}
			case 2:
				out = bytes.ToUpper(out)
			case 3:
				out = cat([]byte{'\n'}, out)
			case 4:
				out = cat(out, make([]byte, between(r, 1, 16, "regexp.zeros")))
			default:
				out = GenericMutate(r, msg)
			}
			return out
		},
	}
}

// ---------------------------------------------------------------------------
// proxy protocol

var proxyV2Sig = []byte{0x0D, 0x0A, 0x0D, 0x0A, 0x00, 0x0D, 0x0A, 0x51, 0x55, 0x49, 0x54, 0x0A}

func protoProxyProtocol() *Proto {
	return &Proto{
		Name: "proxy_protocol", TCP: true,
		Matchers: func(ctx caddy.Context) ([]NamedMatcher, error) {
			return provisionAll(ctx, []NamedMatcher{{Name: "proxy_protocol", M: &l4proxyprotocol.MatchProxyProtocol{}, MatchesValid: true}})
		},
		Valid:  proxyValid,
		Mutate: proxyMutate,
	}
}

func ipv4String(r Rand, label string) string {
	if coin(r, label+".fixed") {
		return pick(r, label, "192.168.0.1", "10.0.0.7", "127.0.0.1", "203.0.113.9", "255.255.255.255", "0.0.0.0")
	}
	b := rbytes(r, 4, label+".byte")
	return fmt.Sprintf("%d.%d.%d.%d", b[0], b[1], b[2], b[3])
}

func ipv6String(r Rand, label string) string {
	return pick(r, label, "::1", "2001:db8::1", "fe80::1234:5678:9abc:def0", "2001:db8:0:1:1:1:1:1", "ffff:ffff:ffff:ffff:ffff:ffff:ffff:ffff", "::")
}

func proxyValid(r Rand, _ bool) []byte {
	var hdr []byte
	switch choose(r, 6, "proxy.kind") {
	case 0: // the repo's v1 example, ports varied
		hdr = []byte(fmt.Sprintf("PROXY TCP4 %s %s %d %d\r\n", ipv4String(r, "proxy.src"), ipv4String(r, "proxy.dst"),
			between(r, 0, 65535, "proxy.sport"), between(r, 0, 65535, "proxy.dport")))
	case 1:
		hdr = []byte(fmt.Sprintf("PROXY TCP6 %s %s %d %d\r\n", ipv6String(r, "proxy.src6"), ipv6String(r, "proxy.dst6"),
			between(r, 0, 65535, "proxy.sport"), between(r, 0, 65535, "proxy.dport")))
	case 2:
		hdr = []byte("PROXY UNKNOWN\r\n")
		if coin(r, "proxy.unknownaddr") {
			hdr = []byte("PROXY UNKNOWN ffff:f...f:ffff ffff:f...f:ffff 65535 65535\r\n")
		}
	default: // v2
		cmd := pick[byte](r, "proxy.cmd", 0x21, 0x20)
		fam := pick[byte](r, "proxy.fam", 0x11, 0x21, 0x12, 0x22, 0x31, 0x00)
		var addr []byte
		switch fam {
		case 0x11, 0x12:
			addr = cat(rbytes(r, 4, "proxy.a4"), rbytes(r, 4, "proxy.b4"), be16(between(r, 0, 65535, "proxy.sport")), be16(between(r, 0, 65535, "proxy.dport")))
		case 0x21, 0x22:
			addr = cat(opaque(r, 16, "proxy.a6"), opaque(r, 16, "proxy.b6"), be16(between(r, 0, 65535, "proxy.sport")), be16(between(r, 0, 65535, "proxy.dport")))
		case 0x31:
			addr = make([]byte, 216)
			copy(addr, "/var/run/src.sock")
			copy(addr[108:], "/var/run/dst.sock")
		}
		var tlvs []byte
		for i, n := 0, choose(r, 3, "proxy.tlvs"); i < n; i++ {
			switch choose(r, 3, "proxy.tlv") {
			case 0: // PP2_TYPE_ALPN
				v := pick(r, "proxy.alpn", "h2", "http/1.1")
				tlvs = cat(tlvs, []byte{0x01}, be16(len(v)), []byte(v))
			case 1: // PP2_TYPE_AUTHORITY
				v := hostName(r, "proxy.authority")
				tlvs = cat(tlvs, []byte{0x02}, be16(len(v)), []byte(v))
			default: // PP2_TYPE_NOOP
				n := between(r, 0, 8, "proxy.noop")
				tlvs = cat(tlvs, []byte{0x04}, be16(n), make([]byte, n))
			}
		}
		hdr = cat(proxyV2Sig, []byte{cmd, fam}, be16(len(addr)+len(tlvs)), addr, tlvs)
	}
	// the proxied protocol follows
	switch choose(r, 3, "proxy.payload") {
	case 1:
		hdr = append(hdr, "GET / HTTP/1.1\r\nHost: example.com\r\n\r\n"...)
	case 2:
		hdr = append(hdr, RandomBytes(r, 48)...)
	}
	return hdr
}

func proxyMutate(r Rand, msg []byte, _ bool) []byte {
	out := clone(msg)
	isV2 := bytes.HasPrefix(out, proxyV2Sig)
	switch choose(r, 10, "proxy.mut") {
	case 0: // shorter than the 12 bytes the matcher reads
		out = out[:choose(r, min(12, len(out))+1, "proxy.cut")]
	case 1: // one signature byte broken
		if len(out) > 0 {
			out[choose(r, min(12, len(out)), "proxy.pos")] ^= 1 << choose(r, 8, "proxy.bit")
		}
	case 2: // v2 length field
		if isV2 && len(out) >= 16 {
			out = mutateLenField(r, out, []lenField{{off: 14, width: 2}}, "proxy.len")
		} else {
			out = GenericMutate(r, msg)
		}
	case 3: // v2 version / command nibble
		if isV2 && len(out) >= 13 {
			out[12] = pick[byte](r, "proxy.vercmd", 0x00, 0x11, 0x22, 0x2f, 0x31, 0xff)
		} else {
			out = bytes.ToLower(out)
		}
	case 4: // v2 family byte
		if isV2 && len(out) >= 14 {
			out[13] = pick[byte](r, "proxy.fambyte", 0x10, 0x13, 0x41, 0xff, 0x01)
		} else if i := bytes.Index(out, []byte("\r\n")); i >= 0 { // v1 without CR
			out = append(out[:i], out[i+1:]...)
		}
	case 5: // v1 line longer than the 107 byte maximum
		out = cat([]byte("PROXY TCP4 "), bytes.Repeat([]byte("1"), between(r, 96, 300, "proxy.long")), []byte(" 1 1\r\n"))
	case 6: // v1 without terminator
		if i := bytes.Index(out, []byte("\r\n")); i >= 0 && !isV2 {
			out = out[:i]
		} else {
			out = out[:min(len(out), 16)]
		}
	case 7: // "PROXY" only, then garbage
		out = cat([]byte("PROXY"), RandomBytes(r, 16))
	case 8: // v2 signature followed by nothing / one byte
		out = cat(proxyV2Sig, RandomBytes(r, 3))
	default:
		out = GenericMutate(r, msg)
	}
	return out
}

// ---------------------------------------------------------------------------
// http

func httpMatcher(raw string) *l4http.MatchHTTP {
	m := &l4http.MatchHTTP{}
	if raw != "" {
		var sets caddyhttp.RawMatcherSets
		if err := json.Unmarshal([]byte(raw), &sets); err != nil {
			panic(err)
		}
		m.MatcherSetsRaw = sets
	}
	return m
}

func protoHTTP() *Proto {
	return &Proto{
		Name: "http", TCP: true,
		Matchers: func(ctx caddy.Context) ([]NamedMatcher, error) {
			return provisionAll(ctx, []NamedMatcher{
				{Name: "http", M: httpMatcher(""), MatchesValid: true},
				{Name: "http{host=example.com}", M: httpMatcher(`[{"host":["example.com"]}]`)},
				{Name: "http{method=GET|HEAD}", M: httpMatcher(`[{"method":["GET","HEAD"]}]`)},
				{Name: "http{path=/api/*}", M: httpMatcher(`[{"path":["/api/*"]}]`)},
				{Name: "http{header=User-Agent:curl*}", M: httpMatcher(`[{"header":{"User-Agent":["curl*"]}}]`)},
				{Name: "http{protocol=http}", M: httpMatcher(`[{"protocol":"http"}]`), MatchesValid: true},
				{Name: "http{not host=example.com}", M: httpMatcher(`[{"not":[{"host":["example.com"]}]}]`)},
			})
		},
		Valid:  httpValid,
		Mutate: httpMutate,
	}
}

var httpPaths = []string{
	"/", "/index.html", "/foo/bar?aaa=bbb", "/api/v1/items?limit=10&offset=20", "/api/", "/a%20b/c",
	"/.well-known/acme-challenge/token", "/search?q=caddy+layer4&lang=en", "/very/deep/path/with/many/segments/file.tar.gz",
}

var h2Preface = []byte("PRI * HTTP/2.0\r\n\r\nSM\r\n\r\n")

func httpValid(r Rand, _ bool) []byte {
	if oneIn(r, 4, "http.h2") {
		return http2Valid(r)
	}
	eol := pick(r, "http.eol", "\r\n", "\n")
	method := pick(r, "http.method", "GET", "POST", "HEAD", "PUT", "DELETE", "OPTIONS", "PATCH", "CONNECT", "PROPFIND", "M-SEARCH")
	host := hostName(r, "http.host")
	if coin(r, "http.port") {
		host += pick(r, "http.portv", ":80", ":8080", ":10443", ":443")
	}
	target := pick(r, "http.path", httpPaths...)
	switch method {
	case "CONNECT":
		target = hostName(r, "http.connecthost") + ":443"
	case "OPTIONS":
		if coin(r, "http.star") {
			target = "*"
		}
	default:
		if oneIn(r, 6, "http.absuri") {
			target = "http://" + host + target
		}
	}
	if method != "CONNECT" && target != "*" && oneIn(r, 10, "http.longline") {
		// a request line longer than half the matching buffer (legal: a long query string)
		target += "?q=" + rstring(r, pick(r, "http.longlen", 4200, 3000, 5000, 6500), alnum, "http.longq")
	}
	version := pick(r, "http.version", "HTTP/1.1", "HTTP/1.0")
	var b strings.Builder
	b.WriteString(method + " " + target + " " + version + eol)
	b.WriteString("Host: " + host + eol)
	body := ""
	for i, n := 0, choose(r, 5, "http.nhdr"); i < n; i++ {
		switch choose(r, 8, "http.hdr") {
		case 0:
			b.WriteString("User-Agent: " + pick(r, "http.ua", "curl/7.82.0", "Mozilla/5.0 (X11; Linux x86_64)", "Go-http-client/1.1") + eol)
		case 1:
			b.WriteString("Accept: */*" + eol)
		case 2:
			b.WriteString("Connection: " + pick(r, "http.conn", "keep-alive", "close", "Upgrade, HTTP2-Settings") + eol)
		case 3:
			b.WriteString("X-" + rstring(r, between(r, 1, 10, "http.xlen"), alnum, "http.xname") + ": " + rstring(r, between(r, 0, 40, "http.xvlen"), alnum+" ;,=/", "http.xval") + eol)
		case 4:
			b.WriteString("Upgrade: h2c" + eol + "HTTP2-Settings: AAMAAABkAAQCAAAAAAIAAAAA" + eol)
		case 5:
			b.WriteString("Accept-Encoding: gzip, deflate, br" + eol)
		case 6:
			b.WriteString("Cookie: session=" + rstring(r, 16, alnum, "http.cookie") + eol)
		case 7:
			b.WriteString("Authorization: Basic dXNlcjpwYXNz" + eol)
		}
	}
	if method == "POST" || method == "PUT" || method == "PATCH" {
		if coin(r, "http.chunked") && version == "HTTP/1.1" {
			b.WriteString("Transfer-Encoding: chunked" + eol)
			body = "5\r\nhello\r\n0\r\n\r\n"
		} else {
			body = rstring(r, between(r, 0, 64, "http.bodylen"), alnum+"&=", "http.body")
			b.WriteString(fmt.Sprintf("Content-Length: %d%s", len(body), eol))
			b.WriteString("Content-Type: application/x-www-form-urlencoded" + eol)
		}
	}
	b.WriteString(eol)
	b.WriteString(body)
	return []byte(b.String())
}

type h2Frame struct {
	typ     http2.FrameType
	flags   http2.Flags
	stream  uint32
	payload []byte
}

func (f h2Frame) bytes() []byte {
	n := len(f.payload)
	return cat([]byte{byte(n >> 16), byte(n >> 8), byte(n), byte(f.typ), byte(f.flags)}, be32(f.stream&0x7fffffff), f.payload)
}

func h2Headers(fields [][2]string) []byte {
	var buf bytes.Buffer
	enc := hpack.NewEncoder(&buf)
	for _, f := range fields {
		_ = enc.WriteField(hpack.HeaderField{Name: f[0], Value: f[1]})
	}
	return buf.Bytes()
}

func h2Settings(r Rand) h2Frame {
	var p []byte
	for i, n := 0, choose(r, 4, "h2.nsettings"); i < n; i++ {
		switch choose(r, 3, "h2.setting") {
		case 0: // MAX_CONCURRENT_STREAMS
			p = cat(p, be16(3), be32(100))
		case 1: // INITIAL_WINDOW_SIZE
			p = cat(p, be16(4), be32(uint32(between(r, 0, 1<<24, "h2.window"))))
		default: // ENABLE_PUSH
			p = cat(p, be16(2), be32(0))
		}
	}
	return h2Frame{typ: http2.FrameSettings, payload: p}
}

// HTTP2Valid is a well-formed HTTP/2 prior-knowledge opening (preface, SETTINGS, HEADERS).
func HTTP2Valid(r Rand) []byte { return http2Valid(r) }

func http2Valid(r Rand) []byte {
	out := clone(h2Preface)
	out = append(out, h2Settings(r).bytes()...)
	if coin(r, "h2.winupdate") {
		out = append(out, h2Frame{typ: http2.FrameWindowUpdate, payload: be32(uint32(between(r, 1, 1<<30, "h2.incr")))}.bytes()...)
	}
	if oneIn(r, 4, "h2.priority") {
		out = append(out, h2Frame{typ: http2.FramePriority, stream: 3, payload: []byte{0, 0, 0, 0, 200}}.bytes()...)
	}
	method := pick(r, "h2.method", "GET", "POST", "HEAD", "OPTIONS")
	authority := hostName(r, "h2.authority")
	if coin(r, "h2.port") {
		authority += ":10443"
	}
	fields := [][2]string{
		{":method", method},
		{":path", pick(r, "h2.path", httpPaths...)},
		{":scheme", pick(r, "h2.scheme", "http", "https")},
		{":authority", authority},
	}
	// pseudo headers may come in any order
	k := choose(r, len(fields), "h2.rot")
	fields = append(fields[k:], fields[:k]...)
	if coin(r, "h2.ua") {
		fields = append(fields, [2]string{"user-agent", pick(r, "h2.uav", "curl/7.82.0", "nghttp2/1.59.0")})
	}
	if coin(r, "h2.accept") {
		fields = append(fields, [2]string{"accept", "*/*"})
	}
	if oneIn(r, 3, "h2.custom") {
		fields = append(fields, [2]string{"x-" + rstring(r, between(r, 1, 8, "h2.xlen"), alnumLower, "h2.xname"), rstring(r, between(r, 0, 30, "h2.xvlen"), alnum, "h2.xval")})
	}
	flags := http2.FlagHeadersEndHeaders
	if method != "POST" {
		flags |= http2.FlagHeadersEndStream
	}
	block := h2Headers(fields)
	if oneIn(r, 6, "h2.dynref") {
		// a block that names its authority by a reference into the HPACK dynamic table (index 62,
		// the newest entry) although this connection has put nothing there: undecodable on its
		// own - unless decoder state leaks in from somewhere else
		var rest [][2]string
		for _, f := range fields {
			if f[0] != ":authority" {
				rest = append(rest, f)
			}
		}
		block = append(h2Headers(rest), 0xBE)
		if len(authority)%3 == 0 {
			// wave 13: instead, a decodable block that repeats one large field by index: a ~3.8 KiB
			// cookie as a literal (it enters the dynamic table) followed by 4000 one-byte references
			// to it - 8 KiB of input that decodes to 4001 fields of 3.8 KiB each
			bomb := append([][2]string(nil), fields...)
			ck := [2]string{"cookie", strings.Repeat(authority+";", 3800/(len(authority)+1))}
			for i := 0; i < 4001; i++ {
				bomb = append(bomb, ck)
			}
			block = h2Headers(bomb)
		}
	}
	hf := h2Frame{typ: http2.FrameHeaders, flags: flags, stream: 1, payload: block}
	if oneIn(r, 4, "h2.hprio") { // HEADERS carrying priority information
		hf.flags |= http2.FlagHeadersPriority
		hf.payload = cat([]byte{0, 0, 0, 0, 15}, block)
	}
	out = append(out, hf.bytes()...)
	if method == "POST" && coin(r, "h2.data") {
		out = append(out, h2Frame{typ: http2.FrameData, flags: http2.FlagDataEndStream, stream: 1, payload: []byte("hello=world")}.bytes()...)
	}
	return out
}

// h2FrameOffsets returns the offsets of the frame headers behind the preface.
func h2FrameOffsets(msg []byte) []int {
	var offs []int
	for off := len(h2Preface); off+9 <= len(msg); {
		offs = append(offs, off)
		n := int(msg[off])<<16 | int(msg[off+1])<<8 | int(msg[off+2])
		off += 9 + n
	}
	return offs
}

func httpMutate(r Rand, msg []byte, _ bool) []byte {
	if bytes.HasPrefix(msg, h2Preface) {
		return http2Mutate(r, msg)
	}
	out := clone(msg)
	eol := bytes.IndexByte(out, '\n')
	switch choose(r, 16, "http.mut") {
	case 0: // headers not terminated (needs more data)
		if i := bytes.Index(out, []byte("\r\n\r\n")); i >= 0 {
			out = out[:i+2]
		} else if i := bytes.Index(out, []byte("\n\n")); i >= 0 {
			out = out[:i+1]
		}
	case 1: // cut inside the request line
		if eol > 0 {
			out = out[:choose(r, eol+1, "http.cut")]
		}
	case 2: // version mangled
		v := pick(r, "http.badver", "HTTP/9.9", "HTTP/1.10", "http/1.1", "HTTP/1", "HTTP/2.0", "HTTP/1.1 ", "HTTX/1.1", "HTTP/-1.1", "HTTP/1.1\x00")
		out = bytes.Replace(out, []byte("HTTP/1.1"), []byte(v), 1)
		out = bytes.Replace(out, []byte("HTTP/1.0"), []byte(v), 1)
	case 3: // no space in front of the version
		out = bytes.Replace(out, []byte(" HTTP/"), []byte("HTTP/"), 1)
	case 4: // request line shorter than 10 bytes
		out = cat([]byte(pick(r, "http.short", "G / H\r\n", "\n", "\r\n", "HTTP/1.1\n", " HTTP/1.1\r\n")), out)
	case 5: // path long enough to fill the matching buffer
		long := strings.Repeat("a", pick(r, "http.longpath", 2040, 4096, 8180, 9000, 20000))
		out = cat([]byte("GET /" + long + " HTTP/1.1\r\nHost: example.com\r\n\r\n"))
	case 6: // header line without colon
		if eol > 0 {
			out = cat(out[:eol+1], []byte("this is not a header\r\n"), out[eol+1:])
		}
	case 7: // duplicate Host
		if eol > 0 {
			out = cat(out[:eol+1], []byte("Host: other.example\r\n"), out[eol+1:])
		}
	case 8: // Content-Length boundary values
		if eol > 0 {
			v := pick(r, "http.cl", "-1", "0", "18446744073709551616", "9223372036854775807", "1e3", "0x10", " 5", "5, 5", "5, 6")
			out = cat(out[:eol+1], []byte("Content-Length: "+v+"\r\n"), out[eol+1:])
		}
	case 9: // method with bytes that are not token characters
		out = cat([]byte(pick(r, "http.badmethod", "G ET", "GET\t", "\x00GET", "G\xffT", "", "(GET)")), out[min(3, len(out)):])
	case 10: // bare CR / LF games on the request line
		if eol > 0 {
			out = cat(out[:eol], []byte(pick(r, "http.eolgame", "\r", "\r\r", "\n", "\x00")), out[eol:])
		}
	case 11: // obs-fold continuation line
		if eol > 0 {
			out = cat(out[:eol+1], []byte("X-Folded: a\r\n b\r\n"), out[eol+1:])
		}
	case 12: // very many headers
		if eol > 0 {
			out = cat(out[:eol+1], bytes.Repeat([]byte("X-A: b\r\n"), pick(r, "http.many", 100, 1000, 1100)), out[eol+1:])
		}
	case 13: // whitespace before the first header name
		if eol > 0 {
			out = cat(out[:eol+1], []byte(" "), out[eol+1:])
		}
	case 14: // request target games
		t := pick(r, "http.badtarget", "//", "/%zz", "http://[::1", "*", "", "/ /", "/\x7f")
		if i := bytes.IndexByte(out, ' '); i >= 0 && eol > i {
			if j := bytes.LastIndexByte(out[:eol], ' '); j > i {
				out = cat(out[:i+1], []byte(t), out[j:])
			}
		}
	default:
		out = GenericMutate(r, msg)
	}
	return out
}

func http2Mutate(r Rand, msg []byte) []byte {
	out := clone(msg)
	offs := h2FrameOffsets(out)
	switch choose(r, 11, "h2.mut") {
	case 0: // cut inside / right behind the preface
		out = out[:choose(r, min(len(out), len(h2Preface)+10), "h2.cut")]
	case 1: // cut at or inside a frame
		if len(offs) > 0 {
			o := offs[choose(r, len(offs), "h2.frame")]
			out = out[:min(len(out), o+choose(r, 12, "h2.cutin"))]
		}
	case 2: // 24 bit frame length boundary values
		if len(offs) > 0 {
			o := offs[choose(r, len(offs), "h2.frame")]
			out = mutateLenField(r, out, []lenField{{off: o, width: 3}}, "h2.len")
			// wave 12: when the client's SETTINGS frame (the first frame) has an entry, it now announces
			// SETTINGS_MAX_FRAME_SIZE = 2^24-1 in front of the frame whose length was changed: a parser that
			// lets the peer raise its own read limit allocates what that frame header claims
			if so := offs[0]; so != o && so+9+6 <= len(out) && out[so+3] == byte(http2.FrameSettings) && (int(out[so])<<16|int(out[so+1])<<8|int(out[so+2])) >= 6 {
				copy(out[so+9:], []byte{0, 5, 0x00, 0xff, 0xff, 0xff})
			}
		}
	case 3: // frame type boundary values
		if len(offs) > 0 {
			o := offs[choose(r, len(offs), "h2.frame")]
			out[o+3] = pick[byte](r, "h2.type", 0, 1, 2, 3, 4, 5, 6, 7, 8, 9, 10, 0xff)
		}
	case 4: // flags
		if len(offs) > 0 {
			o := offs[choose(r, len(offs), "h2.frame")]
			out[o+4] = pick[byte](r, "h2.flags", 0, 0x01, 0x04, 0x08, 0x20, 0x2d, 0xff)
		}
	case 5: // more than ten frames in front of HEADERS
		if len(offs) > 0 {
			last := offs[len(offs)-1]
			filler := bytes.Repeat(h2Frame{typ: http2.FrameSettings}.bytes(), pick(r, "h2.filler", 9, 10, 11, 50))
			out = cat(out[:last], filler, out[last:])
		}
	case 6: // broken header block
		if len(offs) > 0 {
			o := offs[len(offs)-1]
			if o+9 < len(out) {
				out[o+9+choose(r, len(out)-o-9, "h2.hpos")] = pick[byte](r, "h2.hbyte", 0xff, 0x7f, 0x3f, 0x80, 0x00)
			}
		}
	case 7: // HEADERS replaced by CONTINUATION / stream id 0
		if len(offs) > 0 {
			o := offs[len(offs)-1]
			if coin(r, "h2.cont") {
				out[o+3] = byte(http2.FrameContinuation)
			} else {
				copy(out[o+5:], []byte{0, 0, 0, 0})
			}
		}
	case 8: // preface damaged behind the request line
		out[len(h2Preface)-choose(r, 6, "h2.prefpos")-1] ^= 0x20
	case 9: // pseudo header values that break URL assembly
		block := h2Headers([][2]string{{":method", "GET"}, {":scheme", pick(r, "h2.badscheme", "ht tp", "", "1http", ":")}, {":authority", pick(r, "h2.badauth", "exa mple", "[::1", "a:b:c", "")}, {":path", pick(r, "h2.badpath", "%zz", "", "no-slash", "/\x7f")}})
		out = cat(h2Preface, h2Frame{typ: http2.FrameSettings}.bytes(), h2Frame{typ: http2.FrameHeaders, flags: http2.FlagHeadersEndHeaders | http2.FlagHeadersEndStream, stream: 1, payload: block}.bytes())
	default:
		out = GenericMutate(r, msg)
	}
	return out
}
