package gen

import (
	"crypto/tls"
	"encoding/json"
	"errors"
	"io"
	"net"
	"time"

	"github.com/caddyserver/caddy/v2"
	"github.com/mholt/caddy-l4/layer4"
	"github.com/mholt/caddy-l4/modules/l4tls"
)

// NewTLSMatcher, if set, is used to build the default (unfiltered) tls
// matcher instead of provisioning an l4tls.MatchTLS through its Provision
// method (which needs ctx.Logger). The returned matcher must be ready to use.
var NewTLSMatcher func() layer4.ConnMatcher

func tlsMatcher(raw map[string]string) *l4tls.MatchTLS {
	m := &l4tls.MatchTLS{}
	if len(raw) > 0 {
		m.MatchersRaw = caddy.ModuleMap{}
		for k, v := range raw {
			m.MatchersRaw[k] = json.RawMessage(v)
		}
	}
	return m
}

func protoTLS() *Proto {
	return &Proto{
		Name: "tls", TCP: true,
		Matchers: func(ctx caddy.Context) ([]NamedMatcher, error) {
			ms := []NamedMatcher{
				{Name: "tls", M: tlsMatcher(nil), MatchesValid: true},
				{Name: "tls{sni=example.com}", M: tlsMatcher(map[string]string{"sni": `["example.com"]`})},
				{Name: "tls{sni=*.example.com}", M: tlsMatcher(map[string]string{"sni": `["*.example.com"]`})},
				{Name: "tls{alpn=h2}", M: tlsMatcher(map[string]string{"alpn": `["h2"]`})},
				{Name: "tls{alpn=http/1.1,sni=example.com|localhost}", M: tlsMatcher(map[string]string{"alpn": `["http/1.1"]`, "sni": `["example.com","localhost"]`})},
				{Name: "tls{remote_ip=192.0.2.0/24}", M: tlsMatcher(map[string]string{"remote_ip": `{"ranges":["192.0.2.0/24"]}`})},
			}
			if NewTLSMatcher != nil {
				ms[0].M = NewTLSMatcher()
			}
			return provisionAll(ctx, ms)
		},
		Valid:  tlsValid,
		Mutate: tlsMutate,
	}
}

// recordingConn records what the TLS client writes and reports EOF on reads.
type recordingConn struct{ wrote []byte }

func (c *recordingConn) Read([]byte) (int, error) { return 0, io.EOF }
func (c *recordingConn) Write(p []byte) (int, error) {
	c.wrote = append(c.wrote, p...)
	return len(p), nil
}
func (c *recordingConn) Close() error { return nil }
func (c *recordingConn) LocalAddr() net.Addr {
	return &net.TCPAddr{IP: FakeRemoteIP, Port: FakeRemotePort}
}
func (c *recordingConn) RemoteAddr() net.Addr {
	return &net.TCPAddr{IP: FakeLocalIP, Port: FakeLocalPort}
}
func (c *recordingConn) SetDeadline(time.Time) error      { return nil }
func (c *recordingConn) SetReadDeadline(time.Time) error  { return nil }
func (c *recordingConn) SetWriteDeadline(time.Time) error { return nil }

// seededReader is handed to tls.Config.Rand. Recent Go versions ignore it for
// key generation, which is why tlsCanonicalize rewrites the random fields.
type seededReader struct{ s splitmix64 }

func (s *seededReader) Read(p []byte) (int, error) { s.s.fill(p); return len(p), nil }

// TLSClientHello runs a real crypto/tls client handshake against an in-memory
// connection and returns the bytes the client wrote before it hit EOF: one
// handshake record holding the ClientHello.
func TLSClientHello(cfg *tls.Config) ([]byte, error) {
	rc := &recordingConn{}
	err := tls.Client(rc, cfg).Handshake()
	if len(rc.wrote) < 5+4 || rc.wrote[0] != 0x16 {
		if err == nil {
			err = errors.New("no ClientHello recorded")
		}
		return nil, err
	}
	n := int(rc.wrote[3])<<8 | int(rc.wrote[4])
	if 5+n > len(rc.wrote) {
		return nil, errors.New("short ClientHello record")
	}
	return rc.wrote[:5+n], nil
}

var tlsVersions = []uint16{tls.VersionTLS10, tls.VersionTLS11, tls.VersionTLS12, tls.VersionTLS13}

func tlsConfig(r Rand) *tls.Config {
	cfg := &tls.Config{
		InsecureSkipVerify: true,
		Time:               func() time.Time { return time.Unix(1760000000, 0) },
	}
	cfg.ServerName = pick(r, "tls.sni", "example.com", "", "localhost", "www.example.com", "sub.example.com", "xn--bcher-kva.example", "a.very.long.server.name.with.many.labels.example.org")
	if oneIn(r, 4, "tls.snirand") {
		cfg.ServerName = hostName(r, "tls.snihost")
	}
	switch choose(r, 6, "tls.alpn") {
	case 1:
		cfg.NextProtos = []string{"h2", "http/1.1"}
	case 2:
		cfg.NextProtos = []string{"http/1.1"}
	case 3:
		cfg.NextProtos = []string{"acme-tls/1"}
	case 4:
		cfg.NextProtos = []string{rstring(r, between(r, 1, 20, "tls.alpnlen"), alnumLower+"/.-", "tls.alpnch")}
	case 5:
		cfg.NextProtos = []string{"h2"}
	}
	switch choose(r, 5, "tls.versions") {
	case 1:
		cfg.MinVersion, cfg.MaxVersion = tls.VersionTLS12, tls.VersionTLS12
	case 2:
		cfg.MinVersion, cfg.MaxVersion = tls.VersionTLS13, tls.VersionTLS13
	case 3:
		lo := choose(r, len(tlsVersions), "tls.min")
		hi := lo + choose(r, len(tlsVersions)-lo, "tls.max")
		cfg.MinVersion, cfg.MaxVersion = tlsVersions[lo], tlsVersions[hi]
	case 4:
		cfg.MinVersion = tls.VersionTLS10
	}
	switch choose(r, 4, "tls.suites") {
	case 1:
		cfg.CipherSuites = []uint16{tls.TLS_ECDHE_RSA_WITH_AES_128_GCM_SHA256, tls.TLS_ECDHE_ECDSA_WITH_AES_128_GCM_SHA256}
	case 2:
		all := tls.CipherSuites()
		n := between(r, 1, len(all), "tls.nsuites")
		for i := 0; i < n; i++ {
			cfg.CipherSuites = append(cfg.CipherSuites, all[choose(r, len(all), "tls.suite")].ID)
		}
	case 3:
		cfg.CipherSuites = []uint16{tls.TLS_RSA_WITH_AES_128_CBC_SHA, tls.TLS_ECDHE_RSA_WITH_CHACHA20_POLY1305_SHA256}
	}
	switch choose(r, 6, "tls.curves") {
	case 1:
		cfg.CurvePreferences = []tls.CurveID{tls.X25519}
	case 2:
		cfg.CurvePreferences = []tls.CurveID{tls.CurveP256}
	case 3:
		cfg.CurvePreferences = []tls.CurveID{tls.X25519MLKEM768, tls.X25519}
	case 4:
		cfg.CurvePreferences = []tls.CurveID{tls.CurveP384, tls.CurveP521}
	case 5:
		cfg.CurvePreferences = []tls.CurveID{tls.X25519, tls.CurveP256, tls.CurveP384}
	}
	cfg.SessionTicketsDisabled = oneIn(r, 4, "tls.notickets")
	return cfg
}

func tlsValid(r Rand, _ bool) []byte {
	var hello []byte
	if oneIn(r, 8, "tls.handmade") {
		hello = tlsHandmade(r)
	} else {
		cfg := tlsConfig(r)
		seed := drawSeed(r, "tls.seed")
		cfg.Rand = &seededReader{s: seed}
		h, err := TLSClientHello(cfg)
		if err != nil {
			// a configuration crypto/tls refuses: fall back to the plain one
			h, err = TLSClientHello(&tls.Config{InsecureSkipVerify: true, ServerName: "example.com"})
		}
		if err != nil {
			hello = tlsHandmade(r)
		} else {
			hello = tlsCanonicalize(h, seed)
		}
	}
	if oneIn(r, 4, "tls.trailing") {
		// early data / a second record right behind the hello
		hello = cat(hello, []byte{0x17, 0x03, 0x03}, be16(8), opaque(r, 8, "tls.early"))
	}
	return hello
}

// tlsHandmade builds a small ClientHello by hand (no crypto involved): legacy
// clients, clients without extensions, GREASE values.
func tlsHandmade(r Rand) []byte {
	legacy := pick[uint16](r, "tlsh.version", tls.VersionTLS12, tls.VersionTLS10, tls.VersionTLS11, 0x0300)
	sid := opaque(r, pick(r, "tlsh.sidlen", 0, 32, 16), "tlsh.sid")
	suites := []byte{0x13, 0x01, 0xc0, 0x2f, 0x00, 0x9c, 0x00, 0x2f}
	if coin(r, "tlsh.scsv") {
		suites = append(suites, 0x00, 0xff)
	}
	if coin(r, "tlsh.grease") {
		suites = append([]byte{0x0a, 0x0a}, suites...)
	}
	body := cat(be16(int(legacy)), opaque(r, 32, "tlsh.random"), []byte{byte(len(sid))}, sid, be16(len(suites)), suites, []byte{1, 0})
	if !oneIn(r, 4, "tlsh.noext") {
		var exts []byte
		ext := func(id int, data []byte) { exts = cat(exts, be16(id), be16(len(data)), data) }
		if coin(r, "tlsh.grease2") {
			ext(0x1a1a, nil)
		}
		if name := pick(r, "tlsh.sni", "example.com", "localhost", ""); name != "" {
			ext(0, cat(be16(len(name)+3), []byte{0}, be16(len(name)), []byte(name)))
		}
		if coin(r, "tlsh.alpn") {
			protos := cat([]byte{2}, []byte("h2"), []byte{8}, []byte("http/1.1"))
			ext(16, cat(be16(len(protos)), protos))
		}
		ext(10, []byte{0, 4, 0, 29, 0, 23})
		ext(11, []byte{1, 0})
		ext(13, []byte{0, 4, 4, 3, 8, 4})
		if coin(r, "tlsh.versions") {
			ext(43, []byte{4, 3, 4, 3, 3})
		}
		if coin(r, "tlsh.ticket") {
			ext(35, opaque(r, pick(r, "tlsh.ticketlen", 0, 16, 100), "tlsh.ticketdata"))
		}
		if coin(r, "tlsh.reneg") {
			ext(0xff01, []byte{0})
		}
		if coin(r, "tlsh.unknown") {
			ext(0xfe0d, opaque(r, between(r, 0, 40, "tlsh.unknownlen"), "tlsh.unknowndata"))
		}
		body = cat(body, be16(len(exts)), exts)
	}
	hs := cat([]byte{1, byte(len(body) >> 16), byte(len(body) >> 8), byte(len(body))}, body)
	recVersion := pick[uint16](r, "tlsh.recversion", tls.VersionTLS10, tls.VersionTLS12, 0x0300)
	return cat([]byte{0x16}, be16(int(recVersion)), be16(len(hs)), hs)
}

// tlsLayout describes where the variable parts of a ClientHello record are.
type tlsLayout struct {
	ok         bool
	random     int // offset of the 32 byte client random
	sidLen     int // offset of the session id length byte
	suitesLen  int // offset of the cipher suites length
	compLen    int // offset of the compression methods length
	extsLen    int // offset of the extensions length, 0 if none
	exts       []tlsExt
	lenFields  []lenField
	keyShares  [][2]int // offset and length of key exchange data
	sniNameLen int      // offset of the host name length, 0 if no SNI
}

type tlsExt struct {
	id   int
	off  int // offset of the extension header
	size int // length of the extension data
}

func tlsParse(rec []byte) (l tlsLayout) {
	if len(rec) >= 5 {
		// only look at the first record, whatever follows it
		if end := 5 + (int(rec[3])<<8 | int(rec[4])); end < len(rec) {
			rec = rec[:end]
		}
	}
	need := func(off, n int) bool { return off >= 0 && n >= 0 && off+n <= len(rec) }
	if !need(0, 5+4+2+32+1) || rec[0] != 0x16 || rec[5] != 1 {
		return
	}
	l.lenFields = append(l.lenFields, lenField{off: 3, width: 2}, lenField{off: 6, width: 3})
	l.random = 11
	l.sidLen = 43
	off := l.sidLen + 1 + int(rec[l.sidLen])
	if !need(off, 2) {
		return
	}
	l.lenFields = append(l.lenFields, lenField{off: l.sidLen, width: 1})
	l.suitesLen = off
	l.lenFields = append(l.lenFields, lenField{off: off, width: 2})
	off += 2 + int(rec[off])<<8 + int(rec[off+1])
	if !need(off, 1) {
		return
	}
	l.compLen = off
	l.lenFields = append(l.lenFields, lenField{off: off, width: 1})
	off += 1 + int(rec[off])
	if off == len(rec) {
		l.ok = true
		return
	}
	if !need(off, 2) {
		return
	}
	l.extsLen = off
	l.lenFields = append(l.lenFields, lenField{off: off, width: 2})
	end := off + 2 + int(rec[off])<<8 + int(rec[off+1])
	off += 2
	if end > len(rec) {
		return
	}
	for off+4 <= end {
		id := int(rec[off])<<8 | int(rec[off+1])
		size := int(rec[off+2])<<8 | int(rec[off+3])
		if off+4+size > end {
			return
		}
		l.exts = append(l.exts, tlsExt{id: id, off: off, size: size})
		l.lenFields = append(l.lenFields, lenField{off: off + 2, width: 2})
		data := off + 4
		switch id {
		case 0: // server_name: list length, type, name length
			if size >= 5 {
				l.lenFields = append(l.lenFields, lenField{off: data, width: 2}, lenField{off: data + 3, width: 2})
				l.sniNameLen = data + 3
			}
		case 10, 13, 16, 50: // vectors with a 2 byte length
			if size >= 2 {
				l.lenFields = append(l.lenFields, lenField{off: data, width: 2})
			}
			if id == 16 && size >= 3 {
				l.lenFields = append(l.lenFields, lenField{off: data + 2, width: 1})
			}
		case 11, 43, 45: // vectors with a 1 byte length
			if size >= 1 {
				l.lenFields = append(l.lenFields, lenField{off: data, width: 1})
			}
		case 51: // key_share: list length, then group, length, data
			if size >= 2 {
				l.lenFields = append(l.lenFields, lenField{off: data, width: 2})
				for p := data + 2; p+4 <= data+size; {
					n := int(rec[p+2])<<8 | int(rec[p+3])
					if p+4+n > data+size {
						break
					}
					l.lenFields = append(l.lenFields, lenField{off: p + 2, width: 2})
					l.keyShares = append(l.keyShares, [2]int{p + 4, n})
					p += 4 + n
				}
			}
		}
		off += 4 + size
	}
	l.ok = off == end
	return
}

// tlsCanonicalize overwrites the fields crypto/tls fills from its entropy
// source (client random, session id, key shares) with bytes derived from seed,
// so that the produced hello depends on the Rand only. The matcher does not
// verify any of them.
func tlsCanonicalize(rec []byte, seed splitmix64) []byte {
	out := clone(rec)
	l := tlsParse(out)
	if !l.ok {
		return out
	}
	s := seed
	s.fill(out[l.random : l.random+32])
	sid := int(out[l.sidLen])
	s.fill(out[l.sidLen+1 : l.sidLen+1+sid])
	for _, ks := range l.keyShares {
		s.fill(out[ks[0] : ks[0]+ks[1]])
	}
	return out
}

func tlsMutate(r Rand, msg []byte, _ bool) []byte {
	out := clone(msg)
	l := tlsParse(out)
	if len(out) < 6 {
		return GenericMutate(r, msg)
	}
	switch choose(r, 19, "tls.mut") {
	case 0, 1: // any length field of the hello, message left as it is or following
		if len(l.lenFields) > 0 {
			out = mutateLenField(r, out, l.lenFields, "tls.lenfield")
		}
	case 2: // record length boundary values, message untouched
		n := int(lenField{off: 3, width: 2}.get(out))
		putBE16(out, 3, pick(r, "tls.reclen", 0, 1, 3, 4, n-1, n+1, 16384, 16385, 65535))
	case 3: // record length shortened and the record cut to it
		n := int(lenField{off: 3, width: 2}.get(out))
		k := pick(r, "tls.shortrec", 0, 1, 4, 6, 38, 39, 40, n/2, n-1)
		if k >= 0 && 5+k <= len(out) {
			out = out[:5+k]
			putBE16(out, 3, k)
		}
	case 4: // record type
		out[0] = pick[byte](r, "tls.rectype", 0x14, 0x15, 0x17, 0x18, 0x00, 0x80, 0xff)
	case 5: // record / hello version
		o := pick(r, "tls.veroff", 1, 9)
		if o+2 <= len(out) {
			copy(out[o:], be16(pick(r, "tls.ver", 0x0000, 0x0002, 0x0300, 0x0304, 0x0305, 0x7f1c, 0xffff)))
		}
	case 6: // handshake type
		out[5] = pick[byte](r, "tls.hstype", 0, 2, 11, 16, 0xff)
	case 7: // cut anywhere inside the record
		out = out[:choose(r, len(out), "tls.cut")]
	case 8: // cut at a structural boundary
		offs := []int{5, 9, 11, 43, 44, l.suitesLen, l.suitesLen + 2, l.compLen, l.extsLen, l.extsLen + 2}
		for _, e := range l.exts {
			offs = append(offs, e.off, e.off+2, e.off+4)
		}
		out = cutAt(r, out, "tls.cutat", offs...)
	case 9: // server name boundary values
		if l.sniNameLen > 0 {
			switch choose(r, 4, "tls.snimut") {
			case 0: // trailing dot
				setByte(out, l.sniNameLen+2+int(lenField{off: l.sniNameLen, width: 2}.get(out))-1, '.')
			case 1: // name type
				setByte(out, l.sniNameLen-1, pick[byte](r, "tls.nametype", 1, 0xff))
			case 2: // NUL inside the name
				setByte(out, l.sniNameLen+2, 0)
			case 3: // name length
				out = mutateLenField(r, out, []lenField{{off: l.sniNameLen, width: 2}}, "tls.snilen")
			}
		}
	case 10: // an extension duplicated (two server_name extensions, ...)
		if len(l.exts) > 0 && l.ok {
			e := l.exts[choose(r, len(l.exts), "tls.dupext")]
			dup := clone(out[e.off : e.off+4+e.size])
			out = tlsGrow(out, l, dup)
		}
	case 11: // pre_shared_key extension that is not the last one / malformed
		if l.ok && l.extsLen > 0 {
			psk := cat(be16(41), be16(2+6+2+33), be16(6), be16(2), []byte{1, 2}, be32(0), be16(33), []byte{32}, make([]byte, 32))
			if coin(r, "tls.pskbad") {
				psk = cat(be16(41), be16(4), be16(0), be16(0))
			}
			out = tlsGrow(out, l, psk)
		}
	case 12: // hello spread over two records
		n := int(lenField{off: 3, width: 2}.get(out))
		if n > 8 && 5+n <= len(out) {
			k := between(r, 1, n-1, "tls.split")
			out = cat(out[:3], be16(k), out[5:5+k], out[:3], be16(n-k), out[5+k:])
		}
	case 13: // SSLv2 compatible hello
		out = cat([]byte{0x80, 0x2e, 0x01, 0x03, 0x01, 0x00, 0x15, 0x00, 0x00, 0x00, 0x10}, opaque(r, 37, "tls.v2"))
	case 14: // record of the maximum size announced, little data
		out = cat([]byte{0x16, 0x03, 0x01, 0xff, 0xff}, out[5:])
	case 15: // empty vectors: no cipher suites / no compression methods
		if l.suitesLen > 0 && l.compLen > 0 {
			if coin(r, "tls.nocomp") {
				out[l.compLen] = 0
			} else {
				putBE16(out, l.suitesLen, 0)
			}
		}
	case 18: // the handshake message spread over two handshake records (RFC 8446 section 5.1 allows it)
		n := int(lenField{off: 3, width: 2}.get(out))
		if n >= 2 && 5+n <= len(out) {
			k := 1 + choose(r, n-1, "tls.fragat")
			out = cat(out[:3], be16(k), out[5:5+k], []byte{0x16, 0x03, 0x03}, be16(n-k), out[5+k:])
		}
	default:
		out = GenericMutate(r, msg)
	}
	return out
}

// tlsGrow appends ext to the extension block of a parsed hello and fixes the
// record, handshake and extension block lengths.
func tlsGrow(rec []byte, l tlsLayout, ext []byte) []byte {
	if !l.ok || l.extsLen == 0 {
		return rec
	}
	recLen := int(lenField{off: 3, width: 2}.get(rec))
	end := 5 + recLen
	if end > len(rec) {
		return rec
	}
	out := cat(rec[:end], ext, rec[end:])
	putBE16(out, 3, recLen+len(ext))
	hs := lenField{off: 6, width: 3}
	hs.put(out, hs.get(out)+uint32(len(ext)))
	putBE16(out, l.extsLen, int(lenField{off: l.extsLen, width: 2}.get(out))+len(ext))
	return out
}
