package gen

import (
	"bytes"
	"fmt"

	"github.com/caddyserver/caddy/v2"
	"github.com/mholt/caddy-l4/modules/l4postgres"
	"github.com/mholt/caddy-l4/modules/l4rdp"
	"github.com/mholt/caddy-l4/modules/l4socks"
	"github.com/mholt/caddy-l4/modules/l4winbox"
	"github.com/mholt/caddy-l4/modules/l4wireguard"
)

// ---------------------------------------------------------------------------
// postgres

const (
	pgSSLRequestCode = 80877103
	pgCancelCode     = 80877102
	pgGSSEncCode     = 80877104
)

func protoPostgres() *Proto {
	return &Proto{
		Name: "postgres", TCP: true,
		Matchers: func(ctx caddy.Context) ([]NamedMatcher, error) {
			return provisionAll(ctx, []NamedMatcher{{Name: "postgres", M: &l4postgres.MatchPostgres{}, MatchesValid: true}})
		},
		Valid:  pgValid,
		Mutate: pgMutate,
	}
}

func pgStartup(version uint32, params [][2]string, terminate bool) []byte {
	body := be32(version)
	for _, kv := range params {
		body = cat(body, []byte(kv[0]), []byte{0}, []byte(kv[1]), []byte{0})
	}
	if terminate {
		body = append(body, 0)
	}
	return cat(be32(uint32(len(body)+4)), body)
}

func pgParams(r Rand) [][2]string {
	params := [][2]string{{"user", pick(r, "pg.user", "postgres", "app", "readonly", "Ünï", rstring(r, between(r, 1, 12, "pg.userlen"), alnumLower, "pg.userch"))}}
	for i, n := 0, choose(r, 5, "pg.nparams"); i < n; i++ {
		switch choose(r, 6, "pg.param") {
		case 0:
			params = append(params, [2]string{"database", pick(r, "pg.db", "postgres", "app_production", "test")})
		case 1:
			params = append(params, [2]string{"application_name", pick(r, "pg.app", "psql", "pgbench", "my app")})
		case 2:
			params = append(params, [2]string{"client_encoding", pick(r, "pg.enc", "UTF8", "LATIN1")})
		case 3:
			params = append(params, [2]string{"options", "-c statement_timeout=5000"})
		case 4:
			params = append(params, [2]string{"replication", pick(r, "pg.repl", "true", "database")})
		case 5:
			params = append(params, [2]string{"_pq_." + rstring(r, between(r, 1, 6, "pg.extlen"), alnumLower, "pg.ext"), ""})
		}
	}
	return params
}

func pgValid(r Rand, _ bool) []byte {
	var out []byte
	if oneIn(r, 3, "pg.ssl") {
		out = cat(be32(8), be32(pgSSLRequestCode))
	} else {
		version := pick[uint32](r, "pg.version", 0x00030000, 0x00030002, 0x00030001, 0x00040000)
		out = pgStartup(version, pgParams(r), true)
	}
	if oneIn(r, 4, "pg.trailing") {
		// e.g. a TLS ClientHello sent without waiting for the 'S' reply
		out = append(out, RandomBytes(r, 32)...)
	}
	return out
}

func pgMutate(r Rand, msg []byte, _ bool) []byte {
	out := clone(msg)
	declared := 0
	if len(out) >= 4 {
		declared = int(lenField{width: 4}.get(out))
	}
	switch choose(r, 14, "pg.mut") {
	case 0: // the length field, message left as it is
		if len(out) >= 4 {
			v := pick[uint32](r, "pg.len", 0, 1, 3, 4, 5, 7, 8, 9, uint32(declared-1), uint32(declared+1), 0xffff, 0x10000, 0x7fffffff, 0x80000000, 0xfffffffe, 0xffffffff, 0x01000000)
			copy(out, be32(v))
		}
	case 1: // the length field, message follows it
		if len(out) >= 4 {
			out = mutateLenField(r, out, []lenField{{off: 0, width: 4}}, "pg.lenfollow")
		}
	case 2: // final terminator missing, length consistent
		if declared == len(out) && declared > 9 {
			out = out[:len(out)-1]
			copy(out, be32(uint32(len(out))))
		}
	case 3: // last value not terminated, length consistent
		if declared == len(out) && declared > 10 {
			out = out[:len(out)-2]
			copy(out, be32(uint32(len(out))))
		}
	case 4: // key without value
		out = pgStartup(0x00030000, nil, false)
		out = cat(out, []byte("user\x00"))
		copy(out, be32(uint32(len(out))))
	case 5: // no parameters at all
		out = pgStartup(0x00030000, nil, coin(r, "pg.term"))
	case 6: // protocol version boundary values
		if len(out) >= 8 {
			copy(out[4:], be32(pick[uint32](r, "pg.badversion", 0, 0x00020000, 0x0002ffff, 0x00030000, 0xffff0000, 0xffffffff, pgCancelCode, pgGSSEncCode, pgSSLRequestCode)))
		}
	case 7: // cancel request
		out = cat(be32(16), be32(pgCancelCode), opaque(r, 8, "pg.cancel"))
	case 8: // GSS encryption request
		out = cat(be32(8), be32(pgGSSEncCode))
	case 9: // length says 4..7: no room for the code
		out = cat(be32(uint32(between(r, 4, 7, "pg.tiny"))), out[min(4, len(out)):])
	case 10: // cut anywhere in the first 12 bytes
		out = out[:choose(r, min(12, len(out))+1, "pg.cut")]
	case 11: // a text protocol hitting the length parser
		out = []byte(pick(r, "pg.text", "GET / HTTP/1.1\r\n\r\n", "SSH-2.0-x\r\n", "\x00\x00\x00\x04", "\x00\x00\x00\x00", "\x16\x03\x01\x02\x00\x01\x00\x01\xfc"))
	case 12: // huge parameter list
		out = pgStartup(0x00030000, [][2]string{{"user", string(bytes.Repeat([]byte("u"), pick(r, "pg.bigval", 2040, 8190, 70000)))}}, true)
	default:
		out = GenericMutate(r, msg)
	}
	return out
}

// ---------------------------------------------------------------------------
// socks4

func protoSocks4() *Proto {
	return &Proto{
		Name: "socks4", TCP: true,
		Matchers: func(ctx caddy.Context) ([]NamedMatcher, error) {
			return provisionAll(ctx, []NamedMatcher{
				{Name: "socks4", M: &l4socks.Socks4Matcher{}, MatchesValid: true},
				{Name: "socks4{commands=CONNECT}", M: &l4socks.Socks4Matcher{Commands: []string{"CONNECT"}}},
				{Name: "socks4{ports=80,443}", M: &l4socks.Socks4Matcher{Ports: []uint16{80, 443}}},
				{Name: "socks4{networks=10.0.0.0/8,0.0.0.0/24}", M: &l4socks.Socks4Matcher{Networks: []string{"10.0.0.0/8", "0.0.0.0/24"}}},
				{Name: "socks4{commands=BIND,ports=1080,networks=192.168.0.0/16}", M: &l4socks.Socks4Matcher{Commands: []string{"bind"}, Ports: []uint16{1080}, Networks: []string{"192.168.0.0/16"}}},
			})
		},
		Valid:  socks4Valid,
		Mutate: socks4Mutate,
	}
}

func socks4Valid(r Rand, _ bool) []byte {
	cmd := pick[byte](r, "socks4.cmd", 1, 2)
	port := pick(r, "socks4.port", 80, 443, 1080, 22, 0, 65535)
	if oneIn(r, 3, "socks4.portrand") {
		port = between(r, 0, 65535, "socks4.portv")
	}
	user := pick(r, "socks4.user", "", "root", "curl", rstring(r, between(r, 1, 16, "socks4.userlen"), alnum, "socks4.userch"))
	out := cat([]byte{4, cmd}, be16(port))
	if coin(r, "socks4.4a") {
		// SOCKS4a: 0.0.0.x with x != 0, host name behind the user id
		host := hostName(r, "socks4.host")
		if oneIn(r, 3, "socks4.hostlit") {
			// clients also put address literals where the name goes
			host = pick(r, "socks4.hostip", "10.1.2.3", "::1", "2001:db8::1", "192.168.0.7", "[::1]", "0.0.0.0")
		}
		out = cat(out, []byte{0, 0, 0, byte(between(r, 1, 255, "socks4.x"))}, []byte(user), []byte{0}, []byte(host), []byte{0})
	} else {
		ip := pick(r, "socks4.ip", []byte{93, 184, 216, 34}, []byte{10, 1, 2, 3}, []byte{192, 168, 0, 1}, []byte{127, 0, 0, 1}, []byte{255, 255, 255, 255})
		if oneIn(r, 3, "socks4.iprand") {
			ip = rbytes(r, 4, "socks4.ipbyte")
		}
		out = cat(out, ip, []byte(user), []byte{0})
	}
	if oneIn(r, 4, "socks4.trailing") {
		out = append(out, "GET / HTTP/1.0\r\n\r\n"...)
	}
	return out
}

func socks4Mutate(r Rand, msg []byte, _ bool) []byte {
	out := clone(msg)
	switch choose(r, 8, "socks4.mut") {
	case 0: // version
		if len(out) > 0 {
			out[0] = pick[byte](r, "socks4.ver", 0, 3, 5, 0x34, 0xff)
		}
	case 1: // command boundary values
		if len(out) > 1 {
			out[1] = pick[byte](r, "socks4.badcmd", 0, 3, 0x5a, 0xff)
		}
	case 2: // one byte short of the fixed header
		out = out[:choose(r, min(8, len(out))+1, "socks4.cut")]
	case 3: // user id without terminator
		if i := bytes.IndexByte(out[min(8, len(out)):], 0); i >= 0 {
			out = out[:min(8, len(out))+i]
		}
	case 4: // very long user id
		if len(out) >= 8 {
			out = cat(out[:8], bytes.Repeat([]byte("u"), pick(r, "socks4.longuser", 255, 256, 4096, 9000)), []byte{0})
		}
	case 5: // 4a marker with x = 0 and no host name
		if len(out) >= 8 {
			copy(out[4:8], []byte{0, 0, 0, 0})
		}
	case 6: // only the fixed header
		out = out[:min(8, len(out))]
	default:
		out = GenericMutate(r, msg)
	}
	return out
}

// ---------------------------------------------------------------------------
// socks5

func protoSocks5() *Proto {
	return &Proto{
		Name: "socks5", TCP: true,
		Matchers: func(ctx caddy.Context) ([]NamedMatcher, error) {
			return provisionAll(ctx, []NamedMatcher{
				{Name: "socks5", M: &l4socks.Socks5Matcher{}, MatchesValid: true},
				{Name: "socks5{auth_methods=0}", M: &l4socks.Socks5Matcher{AuthMethods: []uint16{0}}},
				{Name: "socks5{auth_methods=0,2,128,255}", M: &l4socks.Socks5Matcher{AuthMethods: []uint16{0, 2, 128, 255}}},
				{Name: "socks5{auth_methods=0,1,2,3}", M: &l4socks.Socks5Matcher{AuthMethods: []uint16{0, 1, 2, 3}}, MatchesValid: true},
				{Name: "socks5{auth_methods=2}", M: &l4socks.Socks5Matcher{AuthMethods: []uint16{2}}},
				{Name: "socks5{auth_methods=1,2}", M: &l4socks.Socks5Matcher{AuthMethods: []uint16{1, 2}}},
			})
		},
		Valid: func(r Rand, _ bool) []byte {
			var methods []byte
			switch choose(r, 5, "socks5.kind") {
			case 0:
				methods = []byte{0} // firefox
			case 1:
				methods = []byte{0, 1} // curl
			case 2:
				methods = []byte{0, 1, 2} // curl with credentials
			case 3:
				methods = []byte{2}
			default:
				for i, n := 0, between(r, 1, 8, "socks5.n"); i < n; i++ {
					methods = append(methods, byte(choose(r, 3, "socks5.method")))
				}
			}
			out := cat([]byte{5, byte(len(methods))}, methods)
			if oneIn(r, 4, "socks5.trailing") {
				// optimistic client: the CONNECT request right behind the greeting
				out = cat(out, []byte{5, 1, 0, 3, 11}, []byte("example.com"), be16(443))
			}
			return out
		},
		Mutate: func(r Rand, msg []byte, _ bool) []byte {
			out := clone(msg)
			switch choose(r, 9, "socks5.mut") {
			case 0: // version
				if len(out) > 0 {
					out[0] = pick[byte](r, "socks5.ver", 0, 4, 6, 0x35, 0xff)
				}
			case 1: // NMETHODS boundary values, list left as it is
				if len(out) > 1 {
					out[1] = pick[byte](r, "socks5.n", 0, 1, byte(len(out)-3), byte(len(out)-2), byte(len(out)-1), 0x7f, 0xff)
				}
			case 2: // NMETHODS with the list following
				if len(out) > 1 {
					out = mutateLenField(r, out, []lenField{{off: 1, width: 1}}, "socks5.len")
				}
			case 3: // unusual methods
				if len(out) > 2 {
					out[2+choose(r, len(out)-2, "socks5.pos")] = pick[byte](r, "socks5.method", 3, 0x7f, 0x80, 0xfe, 0xff)
				}
			case 4: // cut
				out = out[:choose(r, min(len(out), 4)+1, "socks5.cut")]
			case 5: // no methods offered
				out = []byte{5, 0}
			case 6: // all 255 methods
				out = []byte{5, 255}
				for i := 0; i < 255; i++ {
					out = append(out, byte(i))
				}
			case 7: // 255 announced, few sent
				out = []byte{5, 255, 0, 1, 2}
			default:
				out = GenericMutate(r, msg)
			}
			return out
		},
	}
}

// ---------------------------------------------------------------------------
// rdp

func protoRDP() *Proto {
	return &Proto{
		Name: "rdp", TCP: true, NoTrailing: true,
		Matchers: func(ctx caddy.Context) ([]NamedMatcher, error) {
			return provisionAll(ctx, []NamedMatcher{
				{Name: "rdp", M: &l4rdp.MatchRDP{}, MatchesValid: true},
				{Name: "rdp{cookie_hash=admin}", M: &l4rdp.MatchRDP{CookieHash: "admin"}},
				{Name: "rdp{cookie_hash_regexp=^[a-z]+[0-9]*$}", M: &l4rdp.MatchRDP{CookieHashRegexp: "^[a-z]+[0-9]*$"}},
				{Name: "rdp{cookie_ips=127.0.0.0/8,cookie_ports=3389}", M: &l4rdp.MatchRDP{CookieIPs: []string{"127.0.0.0/8"}, CookiePorts: []uint16{3389}}},
				{Name: "rdp{cookie_ports=3389,5000}", M: &l4rdp.MatchRDP{CookiePorts: []uint16{3389, 5000}}},
				{Name: "rdp{custom_info_regexp=^[A-Za-z0-9 ]+$}", M: &l4rdp.MatchRDP{CustomInfoRegexp: "^[A-Za-z0-9 ]+$"}},
				{Name: "rdp{custom_info=anything could be here}", M: &l4rdp.MatchRDP{CustomInfo: "anything could be here"}},
			})
		},
		Valid:  rdpValid,
		Mutate: rdpMutate,
	}
}

type rdpParts struct {
	routing []byte // cookie, routing token or custom info, including CR LF
	negReq  []byte
	corr    []byte
}

func (p rdpParts) bytes() []byte {
	payload := cat(p.routing, p.negReq, p.corr)
	total := 4 + 7 + len(payload)
	return cat([]byte{3, 0}, be16(total), []byte{byte(total - 5), 0xE0, 0, 0, 0, 0, 0}, payload)
}

func rdpToken(ip uint32, port uint16, reserved string) []byte {
	cookie := fmt.Sprintf("Cookie: msts=%d.%d.%s\r\n", ip, port, reserved)
	n := 11 + len(cookie)
	return cat([]byte{3, 0}, be16(n), []byte{byte(n - 5), 0xE0, 0, 0, 0, 0, 0}, []byte(cookie))
}

func rdpNegReq(flags byte, protocols uint32) []byte {
	return cat([]byte{1, flags, 8, 0}, le32(protocols))
}

func rdpCorrInfo(id []byte) []byte {
	return cat([]byte{6, 0, 36, 0}, id, make([]byte, 16))
}

func rdpGen(r Rand) rdpParts {
	var p rdpParts
	switch choose(r, 4, "rdp.routing") {
	case 0: // nothing
	case 1: // Cookie: mstshash=
		hash := pick(r, "rdp.hash", "a0123", "admin", "DOMAIN\\us", "user", "x")
		if oneIn(r, 3, "rdp.hashrand") {
			hash = rstring(r, between(r, 1, 24, "rdp.hashlen"), alnum+"/\\._-@", "rdp.hashch")
		}
		p.routing = []byte("Cookie: mstshash=" + hash + "\r\n")
	case 2: // routing token with msts cookie
		ip := pick[uint32](r, "rdp.ip", 16777343 /* 127.0.0.1 */, 3232235777, 167772161, 4294967295, 100)
		port := pick[uint16](r, "rdp.port", 15629 /* 3389 */, 34835 /* 5000 */, 20480, 65535, 100)
		if oneIn(r, 3, "rdp.tokenrand") {
			ip = uint32(between(r, 100, 1<<30, "rdp.ipv"))
			port = uint16(between(r, 1, 65535, "rdp.portv"))
		}
		p.routing = rdpToken(ip, port, "0000")
	case 3: // custom load balance info
		info := pick(r, "rdp.info", "anything could be here", "tsv://MS Terminal Services Plugin.1.Farm", "lb-42")
		if oneIn(r, 3, "rdp.inforand") {
			info = rstring(r, between(r, 1, 40, "rdp.infolen"), alnum+" .:/", "rdp.infoch")
		}
		p.routing = []byte(info + "\r\n")
	}
	if len(p.routing) == 0 || !oneIn(r, 4, "rdp.noneg") {
		flags := pick[byte](r, "rdp.flags", 0, 0, 1, 2, 3)
		protocols := pick[uint32](r, "rdp.protocols", 0, 1, 3, 11, 4, 16, 5, 7, 15, 31, 19)
		p.negReq = rdpNegReq(flags, protocols)
		if coin(r, "rdp.corr") {
			p.negReq[1] |= 0x08
			id := opaque(r, 16, "rdp.corrid")
			for i := range id {
				if id[i] == 0x0D {
					id[i] = 0x0E
				}
			}
			if id[0] == 0x00 || id[0] == 0xF4 {
				id[0] = 0x01
			}
			p.corr = rdpCorrInfo(id)
		}
	}
	return p
}

func rdpValid(r Rand, _ bool) []byte { return rdpGen(r).bytes() }

func rdpMutate(r Rand, msg []byte, _ bool) []byte {
	out := clone(msg)
	crlf := bytes.Index(out, []byte("\r\n"))
	switch choose(r, 18, "rdp.mut") {
	case 0: // TPKT length
		if len(out) >= 4 {
			out = mutateLenField(r, out, []lenField{{off: 2, width: 2}}, "rdp.tpktlen")
		}
	case 1: // X.224 length indicator
		if len(out) >= 5 {
			out = mutateLenField(r, out, []lenField{{off: 4, width: 1}}, "rdp.x224len")
		}
	case 2: // both lengths moved together, payload untouched
		if len(out) >= 5 {
			d := pick(r, "rdp.delta", -1, 1, -2, 2, 8)
			putBE16(out, 2, int(lenField{off: 2, width: 2}.get(out))+d)
			out[4] = byte(int(out[4]) + d)
		}
	case 3: // one trailing byte
		out = append(out, pick[byte](r, "rdp.extra", 0, 0x0d, 0x0a, 0xff))
	case 4: // payload ends with a bare CR (lengths consistent)
		p := rdpParts{routing: []byte(pick(r, "rdp.barecr", "abc\r", "\r", "Cookie: mstshash=a\r", "Cookie: msts=1.2.0000\r"))}
		out = p.bytes()
	case 5: // CR LF at the very end of a longer payload, preceded by a CR
		p := rdpParts{routing: []byte("x\r\r\n")}
		out = p.bytes()
	case 6: // cookie without CR LF
		if crlf >= 11 {
			p := rdpParts{routing: out[11:crlf], negReq: rdpNegReq(0, 1)}
			out = p.bytes()
		}
	case 7: // empty cookie hash / empty custom info
		p := rdpParts{routing: []byte(pick(r, "rdp.empty", "Cookie: mstshash=\r\n", "\r\n", "Cookie: msts=\r\n")), negReq: rdpNegReq(0, 0)}
		out = p.bytes()
	case 8: // routing token with inconsistent inner lengths
		tok := rdpToken(16777343, 15629, "0000")
		switch choose(r, 4, "rdp.tokenmut") {
		case 0:
			tok = mutateLenField(r, tok, []lenField{{off: 2, width: 2}}, "rdp.toklen")
		case 1:
			tok[4] = pick[byte](r, "rdp.tokli", 0, 1, 0xff, tok[4]+1)
		case 2:
			tok[5] = pick[byte](r, "rdp.toktype", 0, 0xD0, 0xF0, 0xFF)
		case 3:
			tok = rdpToken(pick[uint32](r, "rdp.tokip", 0, 1, 4294967295), pick[uint16](r, "rdp.tokport", 0, 1, 65535), pick(r, "rdp.tokres", "0000", "0001", "", "00000", "0.0"))
		}
		out = rdpParts{routing: tok, negReq: rdpNegReq(0, 3)}.bytes()
	case 9: // routing token with numbers out of range
		cookie := pick(r, "rdp.badcookie", "Cookie: msts=4294967296.15629.0000\r\n", "Cookie: msts=1.65536.0000\r\n", "Cookie: msts=-1.1.0000\r\n", "Cookie: msts=1.1\r\n", "Cookie: msts=....\r\n", "Cookie: msts=99999999999999999999.1.0000\r\n")
		n := 11 + len(cookie)
		tok := cat([]byte{3, 0}, be16(n), []byte{byte(n - 5), 0xE0, 0, 0, 0, 0, 0}, []byte(cookie))
		out = rdpParts{routing: tok}.bytes()
	case 10: // negotiation request boundary values
		neg := rdpNegReq(pick[byte](r, "rdp.badflags", 0x04, 0x10, 0x0d, 0xff, 0x08), pick[uint32](r, "rdp.badproto", 2, 8, 10, 32, 0x0d, 0x0a0d, 0xffffffff))
		switch choose(r, 3, "rdp.negmut") {
		case 0:
			neg[0] = pick[byte](r, "rdp.negtype", 0, 2, 3, 6)
		case 1:
			neg[2] = pick[byte](r, "rdp.neglen", 0, 7, 9, 0xff)
		}
		out = rdpParts{negReq: neg}.bytes()
	case 11: // correlation flag set but no correlation info, or the reverse
		if coin(r, "rdp.corrflag") {
			out = rdpParts{negReq: rdpNegReq(0x08, 1)}.bytes()
		} else {
			out = rdpParts{negReq: rdpNegReq(0, 1), corr: rdpCorrInfo(bytes.Repeat([]byte{1}, 16))}.bytes()
		}
	case 12: // correlation info boundary values
		id := bytes.Repeat([]byte{7}, 16)
		corr := rdpCorrInfo(id)
		switch choose(r, 5, "rdp.corrmut") {
		case 0:
			corr[4] = pick[byte](r, "rdp.corrfirst", 0x00, 0xF4)
		case 1:
			corr[4+choose(r, 16, "rdp.corrpos")] = 0x0D
		case 2:
			corr[20+choose(r, 16, "rdp.corrres")] = 1
		case 3:
			corr[2] = pick[byte](r, "rdp.corrlen", 0, 35, 37)
		case 4:
			corr = corr[:choose(r, len(corr), "rdp.corrcut")]
		}
		out = rdpParts{negReq: rdpNegReq(0x08, 1), corr: corr}.bytes()
	case 13: // header fields
		if len(out) >= 11 {
			out[pick(r, "rdp.hdrpos", 0, 1, 5, 6, 7, 8, 9, 10)] = pick[byte](r, "rdp.hdrbyte", 0, 1, 2, 3, 0xE0, 0xF0, 0xff)
		}
	case 14: // header only / cut inside header
		out = out[:choose(r, min(len(out), 11)+1, "rdp.cut")]
	case 15: // largest payload the length indicator can describe, and one more
		n := pick(r, "rdp.big", 243, 244, 245, 246, 247, 248)
		out = rdpParts{routing: cat(bytes.Repeat([]byte("i"), n), []byte("\r\n"))}.bytes()
	case 16: // payload cut, lengths untouched
		if len(out) > 11 {
			out = out[:11+choose(r, len(out)-11, "rdp.paycut")]
		}
	default:
		out = GenericMutate(r, msg)
	}
	return out
}

// ---------------------------------------------------------------------------
// winbox

func protoWinbox() *Proto {
	return &Proto{
		Name: "winbox", TCP: true, NoTrailing: true,
		Matchers: func(ctx caddy.Context) ([]NamedMatcher, error) {
			return provisionAll(ctx, []NamedMatcher{
				{Name: "winbox", M: &l4winbox.MatchWinbox{}, MatchesValid: true},
				{Name: "winbox{modes=standard}", M: &l4winbox.MatchWinbox{Modes: []string{"standard"}}},
				{Name: "winbox{modes=romon}", M: &l4winbox.MatchWinbox{Modes: []string{"RoMON"}}},
				{Name: "winbox{modes=standard,romon}", M: &l4winbox.MatchWinbox{Modes: []string{"standard", "romon"}}, MatchesValid: true},
				{Name: "winbox{username=admin}", M: &l4winbox.MatchWinbox{Username: "admin"}},
				{Name: "winbox{username_regexp=^[a-z]+$}", M: &l4winbox.MatchWinbox{UsernameRegexp: "^[a-z]+$"}},
			})
		},
		Valid:  winboxValid,
		Mutate: winboxMutate,
	}
}

// winboxFrame splits content into chunks the way the Winbox client does: up to
// 255 bytes per chunk, type 0x06 for the first and 0xFF for the others.
func winboxFrame(content []byte) []byte {
	var out []byte
	for i := 0; i < len(content) || i == 0; i += 255 {
		end := min(len(content), i+255)
		typ := byte(0xFF)
		if i == 0 {
			typ = 0x06
		}
		out = cat(out, []byte{byte(end - i), typ}, content[i:end])
	}
	return out
}

func winboxContent(user string, key []byte, parity byte) []byte {
	return cat([]byte(user), []byte{0}, key, []byte{parity})
}

func winboxUser(r Rand, n int) string {
	const edge = alnum
	const mid = alnum + "-#.@_"
	switch {
	case n <= 1:
		return rstring(r, 1, edge, "winbox.ch")
	case n == 2:
		n = 3
	}
	return rstring(r, 1, edge, "winbox.ch") + rstring(r, n-2, mid, "winbox.ch") + rstring(r, 1, edge, "winbox.ch")
}

func winboxValid(r Rand, _ bool) []byte {
	user := pick(r, "winbox.user", "admin", "toms", "andris", "a", "net-ops@example.com", "user_01")
	switch choose(r, 4, "winbox.userkind") {
	case 1:
		user = winboxUser(r, between(r, 1, 16, "winbox.userlen"))
	case 2:
		// long user names: the message needs a second chunk from 222 bytes on
		user = winboxUser(r, pick(r, "winbox.longlen", 100, 218, 219, 220, 222, 223, 250, 253))
	}
	if coin(r, "winbox.romon") {
		user += "+r"
	}
	if len(user)+34 == 255 {
		// a content of exactly 255 bytes is left to Mutate (see winboxMutate)
		user = "x" + user
	}
	return winboxFrame(winboxContent(user, opaque(r, 32, "winbox.key"), byte(choose(r, 2, "winbox.parity"))))
}

func winboxMutate(r Rand, msg []byte, _ bool) []byte {
	out := clone(msg)
	key := bytes.Repeat([]byte{0xAB}, 32)
	switch choose(r, 16, "winbox.mut") {
	case 0: // content of exactly 255 bytes: one full chunk and nothing behind it
		user := winboxUser(r, 221)
		if coin(r, "winbox.romon") {
			user = user[:219] + "+r"
		}
		out = winboxFrame(winboxContent(user, key, 0))
	case 1: // first chunk length
		if len(out) >= 2 {
			out = mutateLenField(r, out, []lenField{{off: 0, width: 1}}, "winbox.len")
		}
	case 2: // first chunk length boundary values, message untouched
		if len(out) >= 1 {
			out[0] = pick[byte](r, "winbox.len0", 0, 1, 33, 34, 35, 36, 254, 255)
		}
	case 3: // chunk type
		if len(out) >= 2 {
			out[1] = pick[byte](r, "winbox.type", 0, 5, 7, 0xFF)
		}
	case 4: // parity
		setByte(out, len(out)-1, pick[byte](r, "winbox.parity", 2, 0x80, 0xff))
	case 5: // public key one byte short / long
		user := "admin"
		k := key
		if coin(r, "winbox.keylong") {
			k = append(clone(key), 1)
		} else {
			k = key[:31]
		}
		out = winboxFrame(winboxContent(user, k, 1))
	case 6: // no delimiter
		out = winboxFrame(cat([]byte("admin"), []byte{1}, key, []byte{0}))
	case 7: // user names the pattern refuses
		user := pick(r, "winbox.baduser", "", "ab", "-admin", "admin-", "ad min", "adm\xffin", "+r", "a+r+r")
		out = winboxFrame(winboxContent(user, key, 0))
	case 8: // trailing byte
		out = append(out, pick[byte](r, "winbox.extra", 0, 1, 6, 0xff))
	case 9: // cut
		out = out[:choose(r, len(out), "winbox.cut")]
	case 10: // two chunks, second chunk header damaged
		long := winboxFrame(winboxContent(winboxUser(r, 240), key, 0))
		switch choose(r, 4, "winbox.chunk2") {
		case 0:
			long[257] = pick[byte](r, "winbox.len2", 0, 1, long[257]-1, long[257]+1, 255)
		case 1:
			long[258] = pick[byte](r, "winbox.type2", 0x06, 0x00, 0xFE)
		case 2:
			long = long[:257+choose(r, 3, "winbox.cut2")]
		case 3:
			long[0] = 254
		}
		out = long
	case 11: // longest accepted and one beyond
		n := pick(r, "winbox.maxuser", 253, 254, 255, 256, 257, 300)
		out = winboxFrame(winboxContent(winboxUser(r, n), key, 0))
	case 12: // three chunks
		out = winboxFrame(winboxContent(winboxUser(r, pick(r, "winbox.huge", 476, 477, 478, 600)), key, 0))
	case 13: // full first chunk announced, short data
		out = cat([]byte{255, 6}, []byte("admin"), []byte{0}, key, []byte{0})
	case 14: // empty message with auth type
		out = []byte{pick[byte](r, "winbox.tiny", 0, 1, 34, 35), 6}
	default:
		out = GenericMutate(r, msg)
	}
	return out
}

// ---------------------------------------------------------------------------
// wireguard

func protoWireGuard() *Proto {
	return &Proto{
		Name: "wireguard", UDP: true, NoTrailing: true,
		Matchers: func(ctx caddy.Context) ([]NamedMatcher, error) {
			return provisionAll(ctx, []NamedMatcher{
				{Name: "wireguard", M: &l4wireguard.MatchWireGuard{}, MatchesValid: true},
				{Name: "wireguard{zero=4285988864}", M: &l4wireguard.MatchWireGuard{Zero: 0xFF770000}},
				{Name: "wireguard{zero=255}", M: &l4wireguard.MatchWireGuard{Zero: 255}, MatchesValid: true},
			})
		},
		Valid: func(r Rand, _ bool) []byte {
			if oneIn(r, 4, "wg.keepalive") {
				// transport data message with empty content (keepalive)
				return cat(le32(4), opaque(r, 4, "wg.receiver"), le32(uint32(between(r, 0, 1<<20, "wg.counter"))), le32(0), opaque(r, 16, "wg.tag"))
			}
			mac2 := make([]byte, 16)
			if oneIn(r, 4, "wg.cookie") {
				mac2 = opaque(r, 16, "wg.mac2")
			}
			return cat(le32(1), opaque(r, 4, "wg.sender"), opaque(r, 32, "wg.ephemeral"), opaque(r, 48, "wg.static"), opaque(r, 28, "wg.timestamp"), opaque(r, 16, "wg.mac1"), mac2)
		},
		Mutate: func(r Rand, msg []byte, _ bool) []byte {
			out := clone(msg)
			if len(out) < 4 {
				return GenericMutate(r, msg)
			}
			switch choose(r, 8, "wg.mut") {
			case 0: // message type
				out[0] = pick[byte](r, "wg.type", 0, 1, 2, 3, 4, 5, 0xff)
			case 1: // reserved bytes
				copy(out[1:4], pick(r, "wg.reserved", []byte{0, 0x77, 0xFF}, []byte{0, 0, 1}, []byte{1, 0, 0}, []byte{0xff, 0xff, 0xff}))
			case 2: // size boundary values
				n := pick(r, "wg.size", 0, 1, 3, 4, 31, 32, 33, 64, 92, 147, 148, 149, 150, 1500)
				if n <= len(out) {
					out = out[:n]
				} else {
					out = cat(out, make([]byte, n-len(out)))
				}
			case 3: // response / cookie reply in their own sizes
				if coin(r, "wg.resp") {
					out = cat(le32(2), opaque(r, 88, "wg.respbody"))
				} else {
					out = cat(le32(3), opaque(r, 60, "wg.cookiebody"))
				}
			case 4: // transport message with content
				out = cat(le32(4), opaque(r, 12, "wg.hdr"), opaque(r, 16+16*between(r, 1, 8, "wg.blocks"), "wg.content"))
			case 5: // big endian type
				copy(out[:4], []byte{0, 0, 0, 1})
			case 6: // two messages in one datagram
				out = cat(out, out)
			default:
				out = GenericMutate(r, msg)
			}
			return out
		},
	}
}
