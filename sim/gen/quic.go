package gen

import (
	"context"
	"crypto/aes"
	"crypto/cipher"
	"crypto/hkdf"
	"crypto/sha256"
	"crypto/tls"
	"errors"

	"github.com/caddyserver/caddy/v2"
	"github.com/mholt/caddy-l4/modules/l4quic"
)

// QUICCaptured are the Initial packets captured in the repo's tests
// (SNI example.com; ALPN h3, custom, h3).
var QUICCaptured = [][]byte{quicPacket1, quicPacket2, quicPacket3}

func quicMatcher(raw map[string]string) *l4quic.MatchQUIC {
	m := &l4quic.MatchQUIC{}
	if len(raw) > 0 {
		m.MatchersRaw = caddy.ModuleMap{}
		for k, v := range raw {
			m.MatchersRaw[k] = []byte(v)
		}
	}
	return m
}

func protoQUIC() *Proto {
	return &Proto{
		Name: "quic", UDP: true, Slow: true, NoTrailing: true,
		Matchers: func(ctx caddy.Context) ([]NamedMatcher, error) {
			return provisionAll(ctx, []NamedMatcher{
				{Name: "quic", M: quicMatcher(nil), MatchesValid: true},
				{Name: "quic{sni=example.com}", M: quicMatcher(map[string]string{"sni": `["example.com"]`})},
				{Name: "quic{alpn=h3}", M: quicMatcher(map[string]string{"alpn": `["h3"]`})},
				{Name: "quic{alpn=custom,sni=example.com}", M: quicMatcher(map[string]string{"alpn": `["custom"]`, "sni": `["example.com"]`})},
			})
		},
		Valid: func(r Rand, _ bool) []byte {
			if k := choose(r, 2*len(QUICCaptured), "quic.kind"); k < len(QUICCaptured) {
				return clone(QUICCaptured[k])
			}
			pkt, err := quicInitial(r)
			if err != nil {
				return clone(QUICCaptured[0])
			}
			return pkt
		},
		Mutate: quicMutate,
	}
}

// ---------------------------------------------------------------------------
// building Initial packets (RFC 9000 section 17.2.2, RFC 9001 section 5)

var quicSaltV1 = []byte{0x38, 0x76, 0x2c, 0xf7, 0xf5, 0x59, 0x34, 0xb3, 0x4d, 0x17, 0x9a, 0xe6, 0xa4, 0xc8, 0x0c, 0xad, 0xcc, 0xbb, 0x7f, 0x0a}

func quicVarint(v uint64) []byte {
	switch {
	case v < 1<<6:
		return []byte{byte(v)}
	case v < 1<<14:
		return []byte{0x40 | byte(v>>8), byte(v)}
	case v < 1<<30:
		return []byte{0x80 | byte(v>>24), byte(v >> 16), byte(v >> 8), byte(v)}
	default:
		return []byte{0xc0 | byte(v>>56), byte(v >> 48), byte(v >> 40), byte(v >> 32), byte(v >> 24), byte(v >> 16), byte(v >> 8), byte(v)}
	}
}

// quicVarint2 always uses the two byte encoding (v < 16384).
func quicVarint2(v int) []byte { return []byte{0x40 | byte(v>>8), byte(v)} }

func hkdfExpandLabel(secret []byte, label string, n int) []byte {
	full := "tls13 " + label
	info := cat(be16(n), []byte{byte(len(full))}, []byte(full), []byte{0})
	out, err := hkdf.Expand(sha256.New, secret, string(info), n)
	if err != nil {
		panic(err)
	}
	return out
}

func quicTransportParams(r Rand, scid []byte) []byte {
	param := func(id uint64, val []byte) []byte { return cat(quicVarint(id), quicVarint(uint64(len(val))), val) }
	out := cat(
		param(0x01, quicVarint(uint64(pick(r, "quic.idle", 30000, 0, 60000)))),
		param(0x03, quicVarint(uint64(pick(r, "quic.maxudp", 1452, 1200, 65527)))),
		param(0x04, quicVarint(uint64(between(r, 0, 1<<24, "quic.maxdata")))),
		param(0x05, quicVarint(1<<20)),
		param(0x06, quicVarint(1<<20)),
		param(0x07, quicVarint(1<<20)),
		param(0x08, quicVarint(uint64(between(r, 0, 100, "quic.streamsbidi")))),
		param(0x09, quicVarint(uint64(between(r, 0, 100, "quic.streamsuni")))),
		param(0x0e, quicVarint(uint64(between(r, 2, 8, "quic.cidlimit")))),
		param(0x0f, scid),
	)
	if coin(r, "quic.grease") { // reserved parameter 31*N+27
		out = cat(out, param(27+31*uint64(between(r, 0, 100, "quic.greaseid")), opaque(r, between(r, 0, 8, "quic.greaselen"), "quic.greaseval")))
	}
	return out
}

// quicClientHello returns the TLS 1.3 ClientHello handshake message a
// crypto/tls QUIC client sends first.
func quicClientHello(cfg *tls.Config, params []byte) ([]byte, error) {
	qc := tls.QUICClient(&tls.QUICConfig{TLSConfig: cfg})
	defer qc.Close()
	qc.SetTransportParameters(params)
	if err := qc.Start(context.Background()); err != nil {
		return nil, err
	}
	var hello []byte
	for {
		ev := qc.NextEvent()
		switch ev.Kind {
		case tls.QUICNoEvent:
			if len(hello) < 4 || hello[0] != 1 {
				return nil, errors.New("no ClientHello produced")
			}
			return hello, nil
		case tls.QUICWriteData:
			if ev.Level == tls.QUICEncryptionLevelInitial {
				hello = append(hello, ev.Data...)
			}
		}
	}
}

func quicInitial(r Rand) ([]byte, error) {
	dcid := opaque(r, pick(r, "quic.dcidlen", 8, 8, 16, 20, 9), "quic.dcid")
	scid := opaque(r, pick(r, "quic.scidlen", 8, 0, 4, 20), "quic.scid")

	cfg := &tls.Config{
		InsecureSkipVerify: true,
		MinVersion:         tls.VersionTLS13,
		CurvePreferences:   []tls.CurveID{tls.X25519}, // keeps the hello inside one packet
		ServerName:         pick(r, "quic.sni", "example.com", "localhost", "www.example.com", ""),
	}
	switch choose(r, 4, "quic.alpn") {
	case 0:
		cfg.NextProtos = []string{"h3"}
	case 1:
		cfg.NextProtos = []string{"custom"}
	case 2:
		cfg.NextProtos = []string{"h3", "h3-29"}
	}
	hello, err := quicClientHello(cfg, quicTransportParams(r, scid))
	if err != nil {
		return nil, err
	}
	// make the hello a function of the tape: rewrite what crypto/tls drew from
	// its entropy source (random, key share); session id is empty in QUIC
	seed := drawSeed(r, "quic.seed")
	rec := tlsCanonicalize(cat([]byte{0x16, 3, 1}, be16(len(hello)), hello), seed)
	hello = rec[5:]

	// frames: CRYPTO (possibly in two out-of-order pieces), PING, PADDING
	var frames []byte
	crypto := func(off, end int) []byte {
		return cat([]byte{0x06}, quicVarint(uint64(off)), quicVarint(uint64(end-off)), hello[off:end])
	}
	if oneIn(r, 3, "quic.split") && len(hello) > 64 {
		k := between(r, 1, len(hello)-1, "quic.splitat")
		frames = cat(crypto(k, len(hello)), crypto(0, k))
	} else {
		frames = crypto(0, len(hello))
	}
	if oneIn(r, 4, "quic.ping") {
		frames = cat([]byte{0x01}, frames)
	}
	pnLen := between(r, 1, 4, "quic.pnlen")
	pn := uint32(between(r, 0, 200, "quic.pn"))
	token := []byte{}
	size := pick(r, "quic.size", 1200, 1200, 1252, 1350, 1451)

	hdr := cat([]byte{0xc0 | byte(pnLen-1)}, be32(1), []byte{byte(len(dcid))}, dcid, []byte{byte(len(scid))}, scid, quicVarint(uint64(len(token))), token)
	// the length field (2 byte varint) covers packet number, payload and tag
	payloadLen := size - len(hdr) - 2 - pnLen - 16
	if payloadLen < len(frames) {
		return nil, errors.New("ClientHello does not fit into one Initial packet")
	}
	pad := make([]byte, payloadLen-len(frames))
	var payload []byte
	if coin(r, "quic.padfirst") {
		payload = cat(pad, frames)
	} else {
		payload = cat(frames, pad)
	}
	hdr = cat(hdr, quicVarint2(pnLen+len(payload)+16))
	pnOff := len(hdr)
	hdr = cat(hdr, be32(pn)[4-pnLen:])

	initial, err := hkdf.Extract(sha256.New, dcid, quicSaltV1)
	if err != nil {
		return nil, err
	}
	client := hkdfExpandLabel(initial, "client in", 32)
	key, iv, hp := hkdfExpandLabel(client, "quic key", 16), hkdfExpandLabel(client, "quic iv", 12), hkdfExpandLabel(client, "quic hp", 16)
	block, err := aes.NewCipher(key)
	if err != nil {
		return nil, err
	}
	aead, err := cipher.NewGCM(block)
	if err != nil {
		return nil, err
	}
	nonce := clone(iv)
	for i, b := range be32(pn) {
		nonce[8+i] ^= b
	}
	pkt := aead.Seal(clone(hdr), nonce, payload, hdr)
	// header protection
	hpBlock, err := aes.NewCipher(hp)
	if err != nil {
		return nil, err
	}
	mask := make([]byte, 16)
	hpBlock.Encrypt(mask, pkt[pnOff+4:pnOff+4+16])
	pkt[0] ^= mask[0] & 0x0f
	for i := 0; i < pnLen; i++ {
		pkt[pnOff+i] ^= mask[1+i]
	}
	return pkt, nil
}

func quicMutate(r Rand, msg []byte, _ bool) []byte {
	out := clone(msg)
	if len(out) < 7 {
		return GenericMutate(r, msg)
	}
	switch choose(r, 14, "quic.mut") {
	case 0: // header form / fixed bit / packet type
		out[0] = pick[byte](r, "quic.first", 0x00, 0x40, 0x80, 0xc0, 0xd0, 0xe0, 0xf0, 0xff, out[0]^0x30)
	case 1: // version: negotiation, v2, draft, unknown
		copy(out[1:5], pick(r, "quic.version", []byte{0, 0, 0, 0}, []byte{0x6b, 0x33, 0x43, 0xcf}, []byte{0xff, 0, 0, 29}, []byte{0x0a, 0x0a, 0x0a, 0x0a}, []byte{0xff, 0xff, 0xff, 0xff}))
	case 2: // destination connection id length
		out[5] = pick[byte](r, "quic.dcidlen", 0, 1, 7, 20, 21, 0xff)
	case 3: // datagram size boundary values
		n := pick(r, "quic.size", 1, 2, 1199, 1200, 1201, 1451, 1452, 1453, 1500, 3000)
		if n <= len(out) {
			out = out[:n]
		} else {
			out = cat(out, make([]byte, n-len(out)))
		}
	case 4: // source connection id length
		if o := 6 + int(out[5]); o < len(out) {
			out[o] = pick[byte](r, "quic.scidlen", 0, 20, 21, 0xff)
		}
	case 5: // token length / length field
		if o := 6 + int(out[5]); o < len(out) {
			if o2 := o + 1 + int(out[o]); o2+3 < len(out) {
				out[o2+choose(r, 3, "quic.lenbyte")] = pick[byte](r, "quic.lenval", 0, 1, 0x3f, 0x40, 0x44, 0x45, 0x7f, 0xbf, 0xff) // 0x44xx, 0x45xx: lengths around the datagram size
			}
		}
	case 6: // payload corrupted: authentication must fail
		out[len(out)-1-choose(r, min(len(out)-1, 64), "quic.tagpos")] ^= 1 << choose(r, 8, "quic.bit")
	case 7: // two Initial packets coalesced into one datagram
		out = cat(out, out)
	case 8: // retry / handshake / 0-RTT types with the same body
		out[0] = out[0]&0xcf | byte(choose(r, 4, "quic.type"))<<4
	case 9: // a header and nothing else, padded with zeros to the minimum
		out = cat(out[:min(len(out), 30)], make([]byte, 1200-min(len(out), 30)))
	case 10: // short header packet of Initial size
		out[0] = 0x40 | out[0]&0x3f
	case 11: // version negotiation shaped packet
		out = cat([]byte{0x80}, []byte{0, 0, 0, 0}, out[5:])
	default:
		out = GenericMutate(r, msg)
	}
	return out
}
