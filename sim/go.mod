module verif/sim

go 1.26.8

require (
	github.com/caddyserver/caddy/v2 v2.8.4
	github.com/mholt/caddy-l4 v0.0.0
	github.com/things-go/go-socks5 v0.0.5
	go.uber.org/zap v1.27.0
	golang.org/x/net v0.30.0
)

require (
	filippo.io/edwards25519 v1.1.0 // indirect
	github.com/AndreasBriese/bbloom v0.0.0-20190825152654-46b345b51c96 // indirect
	github.com/Masterminds/goutils v1.1.1 // indirect
	github.com/Masterminds/semver/v3 v3.2.1 // indirect
	github.com/Masterminds/sprig/v3 v3.2.3 // indirect
	github.com/antlr4-go/antlr/v4 v4.13.0 // indirect
	github.com/aryann/difflib v0.0.0-20210328193216-ff5ff6dc229b // indirect
	github.com/beorn7/perks v1.0.1 // indirect
	github.com/caddyserver/certmagic v0.21.3 // indirect
	github.com/caddyserver/zerossl v0.1.3 // indirect
	github.com/cespare/xxhash v1.1.0 // indirect
	github.com/cespare/xxhash/v2 v2.2.0 // indirect
	github.com/chzyer/readline v1.5.1 // indirect
	github.com/cpuguy83/go-md2man/v2 v2.0.3 // indirect
	github.com/dgraph-io/badger v1.6.2 // indirect
	github.com/dgraph-io/badger/v2 v2.2007.4 // indirect
	github.com/dgraph-io/ristretto v0.1.1 // indirect
	github.com/dgryski/go-farm v0.0.0-20200201041132-a6ae2369ad13 // indirect
	github.com/dustin/go-humanize v1.0.1 // indirect
	github.com/go-jose/go-jose/v3 v3.0.3 // indirect
	github.com/go-kit/kit v0.13.0 // indirect
	github.com/go-kit/log v0.2.1 // indirect
	github.com/go-logfmt/logfmt v0.6.0 // indirect
	github.com/go-sql-driver/mysql v1.7.1 // indirect
	github.com/golang/glog v1.2.0 // indirect
	github.com/golang/protobuf v1.5.4 // indirect
	github.com/golang/snappy v0.0.4 // indirect
	github.com/google/cel-go v0.20.1 // indirect
	github.com/google/uuid v1.6.0 // indirect
	github.com/huandu/xstrings v1.4.0 // indirect
	github.com/imdario/mergo v0.3.16 // indirect
	github.com/jackc/chunkreader/v2 v2.0.1 // indirect
	github.com/jackc/pgconn v1.14.3 // indirect
	github.com/jackc/pgio v1.0.0 // indirect
	github.com/jackc/pgpassfile v1.0.0 // indirect
	github.com/jackc/pgproto3/v2 v2.3.3 // indirect
	github.com/jackc/pgservicefile v0.0.0-20221227161230-091c0ba34f0a // indirect
	github.com/jackc/pgtype v1.14.0 // indirect
	github.com/jackc/pgx/v4 v4.18.3 // indirect
	github.com/klauspost/compress v1.17.8 // indirect
	github.com/klauspost/cpuid/v2 v2.2.7 // indirect
	github.com/libdns/libdns v0.2.2 // indirect
	github.com/manifoldco/promptui v0.9.0 // indirect
	github.com/mastercactapus/proxyprotocol v0.0.4 // indirect
	github.com/mattn/go-colorable v0.1.13 // indirect
	github.com/mattn/go-isatty v0.0.20 // indirect
	github.com/mgutz/ansi v0.0.0-20200706080929-d51e80ef957d // indirect
	github.com/mholt/acmez/v2 v2.0.1 // indirect
	github.com/miekg/dns v1.1.62 // indirect
	github.com/mitchellh/copystructure v1.2.0 // indirect
	github.com/mitchellh/go-ps v1.0.0 // indirect
	github.com/mitchellh/reflectwalk v1.0.2 // indirect
	github.com/pires/go-proxyproto v0.7.0 // indirect
	github.com/pkg/errors v0.9.1 // indirect
	github.com/prometheus/client_golang v1.19.1 // indirect
	github.com/prometheus/client_model v0.5.0 // indirect
	github.com/prometheus/common v0.48.0 // indirect
	github.com/prometheus/procfs v0.12.0 // indirect
	github.com/quic-go/qpack v0.4.0 // indirect
	github.com/quic-go/quic-go v0.44.0 // indirect
	github.com/rs/xid v1.5.0 // indirect
	github.com/russross/blackfriday/v2 v2.1.0 // indirect
	github.com/shopspring/decimal v1.3.1 // indirect
	github.com/shurcooL/sanitized_anchor_name v1.0.0 // indirect
	github.com/slackhq/nebula v1.7.2 // indirect
	github.com/smallstep/certificates v0.26.1 // indirect
	github.com/smallstep/nosql v0.6.1 // indirect
	github.com/smallstep/pkcs7 v0.0.0-20231024181729-3b98ecc1ca81 // indirect
	github.com/smallstep/scep v0.0.0-20231024192529-aee96d7ad34d // indirect
	github.com/smallstep/truststore v0.13.0 // indirect
	github.com/spf13/cast v1.5.1 // indirect
	github.com/spf13/cobra v1.8.0 // indirect
	github.com/spf13/pflag v1.0.5 // indirect
	github.com/stoewer/go-strcase v1.3.0 // indirect
	github.com/tailscale/tscert v0.0.0-20240517230440-bbccfbf48933 // indirect
	github.com/urfave/cli v1.22.14 // indirect
	github.com/zeebo/blake3 v0.2.3 // indirect
	go.etcd.io/bbolt v1.3.9 // indirect
	go.step.sm/cli-utils v0.9.0 // indirect
	go.step.sm/crypto v0.45.0 // indirect
	go.step.sm/linkedca v0.20.1 // indirect
	go.uber.org/automaxprocs v1.5.3 // indirect
	go.uber.org/multierr v1.11.0 // indirect
	go.uber.org/zap/exp v0.2.0 // indirect
	golang.org/x/crypto v0.28.0 // indirect
	golang.org/x/crypto/x509roots/fallback v0.0.0-20240507223354-67b13616a595 // indirect
	golang.org/x/exp v0.0.0-20240506185415-9bf2ced13842 // indirect
	golang.org/x/sys v0.26.0 // indirect
	golang.org/x/term v0.25.0 // indirect
	golang.org/x/text v0.19.0 // indirect
	golang.org/x/time v0.7.0 // indirect
	google.golang.org/genproto/googleapis/api v0.0.0-20240506185236-b8a5c65736ae // indirect
	google.golang.org/genproto/googleapis/rpc v0.0.0-20240429193739-8cf5692501f6 // indirect
	google.golang.org/grpc v1.63.2 // indirect
	google.golang.org/protobuf v1.34.1 // indirect
	gopkg.in/yaml.v3 v3.0.1 // indirect
)

replace github.com/mholt/caddy-l4 => /repo
