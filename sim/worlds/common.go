package worlds

import (
	"errors"
	"fmt"
	"io"
	"net"
	"time"

	"github.com/caddyserver/caddy/v2"
	"github.com/mholt/caddy-l4/layer4"

	"verif/sim/simkit"
)

// lk/ulk: the simulation lock (transparent to the race detector).
func lk()  { simkit.Cur.Lock() }
func ulk() { simkit.Cur.Unlock() }


// StreamByte is byte i of the position-coded stream with the given key:
// loss, duplication, reordering, alteration and cross-talk are all visible
// from any received window.
func StreamByte(key uint64, i int) byte {
	x := key*0x9e3779b97f4a7c15 + uint64(i)*0xbf58476d1ce4e5b9
	x ^= x >> 30
	x *= 0xbf58476d1ce4e5b9
	x ^= x >> 27
	x *= 0x94d049bb133111eb
	x ^= x >> 31
	b := byte(x)
	if b == Poison {
		b ^= 0x55 // the stream never contains the poison byte
	}
	return b
}

func Stream(key uint64, n int) []byte {
	b := make([]byte, n)
	for i := range b {
		b[i] = StreamByte(key, i)
	}
	return b
}

// ConnModel is the reference model of one client connection: the application
// stream the client sends (after any PROXY header / inside TLS) and how much of
// it has been consumed by handlers so far.
type ConnModel struct {
	ID       int
	Key      uint64
	Addr     string // client address ("ip:port") = identity seen by the server
	App      []byte // logical stream every consuming handler must observe (Pre+payload until the header is stripped)
	Pre      []byte // header bytes removed by a stripping handler
	Stripped bool
	Consumed int    // offset of the first byte not yet consumed by an earlier handler
	Aborted  bool   // the client reset the connection: only prefix invariants apply
	Stopped  bool   // a harness handler ended the chain (terminal recorder, or consume that hit the end of the stream)
	WroteAll bool   // client finished writing and half-closed gracefully

	// observations
	HandlerCalls []HandlerCall
	Recorders    []*RecState
}

type HandlerCall struct {
	Handler string
	Offset  int
	At      time.Duration
	DoneAt  time.Duration // when the harness handler finished its own reading (before calling next)
	Visible int // prefetched bytes visible when the handler started (markers only; -1 otherwise)
	EvalSeq int // number of matcher evaluations recorded before this call
}

// Registry maps client address -> model.
type Registry struct {
	byKey map[string]*ConnModel
	All   []*ConnModel
}

func NewRegistry() *Registry { return &Registry{byKey: map[string]*ConnModel{}} }

func (r *Registry) Add(m *ConnModel) {
	lk()
	r.byKey[m.Addr] = m
	r.All = append(r.All, m)
	ulk()
}

func (r *Registry) Lookup(addr net.Addr) *ConnModel {
	lk()
	defer ulk()
	return r.byKey[addr.String()]
}

// RecState is what one recorder observed.
type RecState struct {
	Name     string
	Start    int // App offset at which this recorder expected to start
	Got      int // bytes verified so far
	EOF      bool
	Err      error
	Bad      bool
	Reads    int
	Done     bool
	DoneAt   time.Duration
	RemoteAt string
	LocalAt  string
}

// checkWindow verifies that p equals App[off:off+len(p)] and classifies the
// difference otherwise.
func (e *Env) checkWindow(tagPrefix, who string, m *ConnModel, off int, p []byte, sig string) bool {
	if off+len(p) > len(m.App) {
		e.S.Fail(tagPrefix+"/extra-bytes", sig, "%s conn %d: read %d bytes at offset %d but the stream has only %d bytes (duplication or foreign data): % x",
			who, m.ID, len(p), off, len(m.App), head(p, 24))
		return false
	}
	for i := range p {
		if p[i] != m.App[off+i] {
			// classify
			kind := "altered"
			allPoison := true
			for _, b := range p[i:min(len(p), i+8)] {
				if b != Poison {
					allPoison = false
				}
			}
			if allPoison {
				kind = "poison"
			} else if j := findWindow(m.App, p[i:min(len(p), i+12)]); j >= 0 {
				switch {
				case j < off+i:
					kind = "dup-bytes"
				default:
					kind = "lost-bytes"
				}
			} else if other := e.foreign(p[i:min(len(p), i+12)], m); other != "" {
				kind = "cross-talk"
				who += " (bytes of " + other + ")"
			}
			e.S.Fail(tagPrefix+"/"+kind, sig, "%s conn %d: at stream offset %d expected % x got % x (read started at %d, len %d)",
				who, m.ID, off+i, head(m.App[off+i:], 12), head(p[i:], 12), off, len(p))
			return false
		}
	}
	return true
}

// foreign is set by worlds with several connections.
func (e *Env) foreign(w []byte, self *ConnModel) string {
	if e.Reg == nil || len(w) < 6 {
		return ""
	}
	for _, o := range e.Reg.All {
		if o == self {
			continue
		}
		if findWindow(o.App, w) >= 0 {
			return fmt.Sprintf("conn %d", o.ID)
		}
	}
	return ""
}

func findWindow(hay, w []byte) int {
	if len(w) < 6 {
		return -1
	}
outer:
	for i := 0; i+len(w) <= len(hay); i++ {
		for j := range w {
			if hay[i+j] != w[j] {
				continue outer
			}
		}
		return i
	}
	return -1
}

func head(b []byte, n int) []byte {
	if len(b) > n {
		return b[:n]
	}
	return b
}

// ---- harness handlers ----------------------------------------------------------

// Consume reads exactly K bytes, verifies them, advances the model and calls next.
type Consume struct {
	E    *Env
	Name string
	K    int
	Tag  string
	Sig  string
	// Visible: record (and verify) the prefetched bytes visible at entry.
	Visible bool
	Hist    *[]MatchEval
	// StripPre: this marker runs right after a header-stripping handler: from
	// here on the logical stream no longer contains the model's Pre bytes.
	StripPre bool
}

func (e *Env) observed() bool {
	if e.OnlyG == "" {
		return true
	}
	n := e.S.Name()
	return n == e.OnlyG || (len(n) > len(e.OnlyG) && n[:len(e.OnlyG)+1] == e.OnlyG+".")
}

func (c *Consume) Handle(cx *layer4.Connection, next layer4.Handler) error {
	if !c.E.observed() {
		buf := make([]byte, c.K)
		if _, err := io.ReadFull(cx, buf); err != nil {
			return nil
		}
		return next.Handle(cx)
	}
	m := c.E.Reg.Lookup(cx.RemoteAddr())
	if m == nil {
		m = c.E.Reg.byAltAddr(cx)
	}
	if m == nil {
		c.E.S.Fail(c.Tag+"/unknown-conn", c.Sig, "%s: no model for %v", c.Name, cx.RemoteAddr())
		return nil
	}
	lk()
	if c.StripPre && !m.Stripped {
		m.Stripped = true
		if m.Consumed != 0 {
			ulk()
			c.E.S.Fail(c.Tag+"/harness", c.Sig, "header stripped after %d bytes were consumed", m.Consumed)
			return nil
		}
		m.App = m.App[len(m.Pre):]
	}
	off := m.Consumed
	hc := HandlerCall{Handler: c.Name, Offset: off, At: c.E.S.Elapsed(), Visible: -1}
	if c.Hist != nil {
		hc.EvalSeq = len(*c.Hist)
	}
	var vis []byte
	if c.Visible {
		vis = cx.MatchingBytes()
		hc.Visible = len(vis)
	}
	hcIdx := len(m.HandlerCalls)
	m.HandlerCalls = append(m.HandlerCalls, hc)
	ulk()
	c.E.S.Tracef("H consume", c.Name, m.ID, off)
	if len(vis) > 0 {
		c.E.checkWindow(c.Tag, c.Name+"(visible)", m, off, vis, c.Sig)
	}
	buf := make([]byte, c.K)
	n, err := io.ReadFull(cx, buf)
	if n > 0 {
		c.E.checkWindow(c.Tag, c.Name, m, off, buf[:n], c.Sig)
	}
	lk()
	m.Consumed = off + n
	m.HandlerCalls[hcIdx].DoneAt = c.E.S.Elapsed()
	ulk()
	if err != nil {
		// stream ended (or failed) before K bytes: nothing more to hand on
		lk()
		aborted := m.Aborted
		m.Stopped = true
		ulk()
		if !aborted && (errors.Is(err, io.ErrUnexpectedEOF) || err == io.EOF) {
			if off+n != len(m.App) {
				c.E.S.Fail(c.Tag+"/early-eof", c.Sig, "%s conn %d: EOF after %d bytes at offset %d, stream has %d", c.Name, m.ID, n, off, len(m.App))
			}
		}
		return nil
	}
	return next.Handle(cx)
}

// Recorder reads to EOF/error with tape-chosen buffer sizes and checks at every
// read that what it has so far is exactly the expected window.
type Recorder struct {
	E        *Env
	Name     string
	Tag      string
	Sig      string
	Terminal bool
	// Late: wait this long (simulated) before the first read.
	Late time.Duration
	// MaxBuf bounds the read buffer size drawn per read.
	MaxBuf int
	// Branch: a tee branch; observes but does not consume for the model.
	Branch bool
	// StartMark: take the start offset from the named mark handler's call
	// (the offset at tee time) instead of the current consumed offset.
	StartMark string
	// PrefixOnly: do not demand the whole stream at a clean EOF
	PrefixOnly bool
	OnDone     func(m *ConnModel, st *RecState)
}

func (r *Recorder) Handle(cx *layer4.Connection, next layer4.Handler) error {
	if !r.E.observed() {
		_, _ = io.Copy(io.Discard, cx)
		return nil
	}
	m := r.E.Reg.Lookup(cx.RemoteAddr())
	if m == nil {
		m = r.E.Reg.byAltAddr(cx)
	}
	if m == nil {
		r.E.S.Fail(r.Tag+"/unknown-conn", r.Sig, "%s: no model for %v", r.Name, cx.RemoteAddr())
		return nil
	}
	r.Record(cx, m, !r.Branch)
	return nil
}

// Record reads conn to the end, verifying against m.App[m.Consumed:].
func (r *Recorder) Record(conn net.Conn, m *ConnModel, advance bool) *RecState {
	lk()
	st := &RecState{Name: r.Name, Start: m.Consumed}
	if !r.Branch {
		m.Stopped = true
	}
	if r.StartMark != "" {
		for _, hc := range m.HandlerCalls {
			if hc.Handler == r.StartMark {
				st.Start = hc.Offset
			}
		}
	}
	m.Recorders = append(m.Recorders, st)
	m.HandlerCalls = append(m.HandlerCalls, HandlerCall{Handler: r.Name, Offset: st.Start, At: r.E.S.Elapsed(), Visible: -1})
	ulk()
	st.RemoteAt, st.LocalAt = conn.RemoteAddr().String(), conn.LocalAddr().String()
	r.E.S.Tracef("H record", r.Name, m.ID, st.Start)
	if r.Late > 0 {
		time.Sleep(r.Late)
	}
	maxb := r.MaxBuf
	if maxb <= 0 {
		maxb = 4096
	}
	for {
		// a scheduling point right before the draw: reads through pipes (tee branch)
		// do not park, and two goroutines must never draw from the tape concurrently
		r.E.S.Park(r.Name + ".draw")
		sz := 1 + r.E.S.Choose(maxb, "rec-buf")
		buf := make([]byte, sz)
		n, err := conn.Read(buf)
		st.Reads++
		if n > 0 {
			if !r.E.checkWindow(r.Tag, r.Name, m, st.Start+st.Got, buf[:n], r.Sig) {
				st.Bad = true
			}
			st.Got += n
			if advance {
				lk()
				if st.Start+st.Got > m.Consumed {
					m.Consumed = st.Start + st.Got
				}
				ulk()
			}
		}
		if err != nil {
			st.Err = err
			st.EOF = err == io.EOF
			break
		}
		if st.Bad {
			break
		}
	}
	st.Done = true
	st.DoneAt = r.E.S.Elapsed()
	if st.EOF && !st.Bad {
		lk()
		aborted := m.Aborted
		ulk()
		if !aborted && !r.PrefixOnly && st.Start+st.Got != len(m.App) {
			r.E.S.Fail(r.Tag+"/lost-tail", r.Sig, "%s conn %d: clean EOF after %d bytes from offset %d, but the stream has %d bytes",
				r.Name, m.ID, st.Got, st.Start, len(m.App))
		}
	}
	if r.OnDone != nil {
		r.OnDone(m, st)
	}
	return st
}

// byAltAddr lets worlds register extra addresses (e.g. the address declared by
// a PROXY header) for a connection.
func (r *Registry) byAltAddr(cx *layer4.Connection) *ConnModel {
	lk()
	defer ulk()
	if m, ok := r.byKey[cx.Conn.RemoteAddr().String()]; ok {
		return m
	}
	return nil
}

func (r *Registry) Alias(addr string, m *ConnModel) {
	lk()
	r.byKey[addr] = m
	ulk()
}

// AddrRec records the addresses and address placeholders a handler sees.
type AddrRec struct {
	E    *Env
	Name string
	Seen *[]AddrSeen
}

type AddrSeen struct {
	Conn       string
	Remote     string
	Local      string
	PHRemote   string
	PHLocal    string
	ConnRemote string // cx.Conn.RemoteAddr(), what the ip matchers use
}

func (a *AddrRec) Handle(cx *layer4.Connection, next layer4.Handler) error {
	s := AddrSeen{Remote: cx.RemoteAddr().String(), Local: cx.LocalAddr().String(), ConnRemote: cx.Conn.RemoteAddr().String()}
	if repl, ok := cx.Context.Value(layer4.ReplacerCtxKey).(*caddy.Replacer); ok {
		if v, ok := repl.Get("l4.conn.remote_addr"); ok {
			s.PHRemote = fmt.Sprint(v)
		}
		if v, ok := repl.Get("l4.conn.local_addr"); ok {
			s.PHLocal = fmt.Sprint(v)
		}
	}
	lk()
	*a.Seen = append(*a.Seen, s)
	ulk()
	return next.Handle(cx)
}
