package worlds

import (
	"crypto/tls"
	"errors"
	"fmt"
	"io"
	"net"
	"strconv"
	"time"

	"github.com/mholt/caddy-l4/layer4"

	"verif/sim/simnet"
)

// ---- spec matchers --------------------------------------------------------------

const (
	ReadFull  = iota // io.ReadFull(cx, need bytes)
	Peek             // cx.MatchingBytes()
	ByteWise         // one byte per Read
	TwoStep          // two io.ReadFull calls
	ReadAllBuf       // read until ErrConsumedAllPrefetchedBytes, decide on what was seen
)

// MatchEval is one leaf evaluation recorded for the routing oracles.
type MatchEval struct {
	Matcher string
	Visible int  // bytes visible (len(MatchingBytes()) at entry)
	BufLen  int  // total prefetch buffer length (including bytes already consumed by handlers)
	First   byte // first visible byte (if any)
	HasByte bool
	Verdict int // 1 yes, 0 no, 2 need more, 3 error
	At      time.Duration
	Conn    string
	Seq     int
}

// SpecMatcher is a harness matcher with a published pure specification:
// it needs Need bytes; once they are visible it answers Yes(prefix[:Need]).
type SpecMatcher struct {
	E     *Env
	ID    string
	Need  int
	Mode  int
	Yes   func(prefix []byte) bool
	Never bool // never decides
	Fail  bool // returns a matcher error once Need bytes are visible
	// Fn, when set, is the whole specification: verdict (0 no, 1 yes, 2 more, 3 error)
	// as a pure function of the visible bytes; the matcher peeks.
	Fn   func(visible []byte) int
	Hist *[]MatchEval
}

var ErrSpecMatcher = errors.New("spec matcher error")

// Spec is the pure specification: verdict on a visible prefix.
// 1 yes, 0 no, 2 more, 3 error.
func (m *SpecMatcher) Spec(visible []byte) int {
	if m.Fn != nil {
		return m.Fn(visible)
	}
	if m.Never {
		return 2
	}
	if len(visible) < m.Need {
		return 2
	}
	if m.Fail {
		return 3
	}
	if m.Yes(visible[:m.Need]) {
		return 1
	}
	return 0
}

func (m *SpecMatcher) Match(cx *layer4.Connection) (bool, error) {
	if !m.E.observed() {
		return m.match(cx)
	}
	vis := cx.MatchingBytes()
	bl, _, _ := layer4.VerifBufState(cx)
	ev := MatchEval{BufLen: bl, Matcher: m.ID, Visible: len(vis), At: m.E.S.Elapsed(), Conn: cx.Conn.RemoteAddr().String()}
	if len(vis) > 0 {
		ev.First, ev.HasByte = vis[0], true
	}
	ok, err := m.match(cx)
	switch {
	case errors.Is(err, layer4.ErrConsumedAllPrefetchedBytes):
		ev.Verdict = 2
	case err != nil:
		ev.Verdict = 3
	case ok:
		ev.Verdict = 1
	}
	if m.Hist != nil {
		lk()
		ev.Seq = len(*m.Hist)
		*m.Hist = append(*m.Hist, ev)
		ulk()
	}
	m.E.S.Tracef("M", m.ID, ev.Visible, ev.Verdict)
	return ok, err
}

func (m *SpecMatcher) match(cx *layer4.Connection) (bool, error) {
	if m.Fn != nil {
		switch m.Fn(cx.MatchingBytes()) {
		case 1:
			return true, nil
		case 2:
			return false, layer4.ErrConsumedAllPrefetchedBytes
		case 3:
			return false, ErrSpecMatcher
		}
		return false, nil
	}
	if m.Never {
		// consume everything visible, then ask for more
		buf := make([]byte, 512)
		for {
			_, err := cx.Read(buf)
			if err != nil {
				return false, err
			}
		}
	}
	if m.Need == 0 {
		if m.Fail {
			return false, ErrSpecMatcher
		}
		return m.Yes(nil), nil
	}
	buf := make([]byte, m.Need)
	switch m.Mode {
	case Peek:
		b := cx.MatchingBytes()
		if len(b) < m.Need {
			return false, layer4.ErrConsumedAllPrefetchedBytes
		}
		copy(buf, b[:m.Need])
	case ByteWise:
		for i := 0; i < m.Need; i++ {
			if _, err := io.ReadFull(cx, buf[i:i+1]); err != nil {
				return false, err
			}
		}
	case TwoStep:
		h := m.Need / 2
		if _, err := io.ReadFull(cx, buf[:h]); err != nil {
			return false, err
		}
		if _, err := io.ReadFull(cx, buf[h:]); err != nil {
			return false, err
		}
	default:
		if _, err := io.ReadFull(cx, buf); err != nil {
			return false, err
		}
	}
	if m.Fail {
		return false, ErrSpecMatcher
	}
	return m.Yes(buf), nil
}

// ---- clients -----------------------------------------------------------------------

const (
	EndHalfClose = iota // CloseWrite, read until EOF, Close
	EndClose            // Close right after the last write
	EndAbort            // reset after AbortAt bytes
	EndLinger           // keep the connection open until the server closes it (or forever)
	EndWaitEOF          // write WaitEOFAfter bytes, wait until the server side signals EOF, write the rest, then close
)

type Chunk struct {
	N     int
	Delay time.Duration // before writing this chunk
}

// ClientPlan scripts one client connection.
type ClientPlan struct {
	ID      int
	Addr    *net.TCPAddr
	StartAt time.Duration
	Pre     []byte      // raw bytes before the application stream (e.g. PROXY header)
	TLS     *tls.Config // wrap in TLS after Pre
	App     []byte
	Chunks  []Chunk
	End     int
	AbortAt int           // EndAbort: reset after this many app bytes
	Linger  time.Duration // EndLinger: how long to stay after the last write (0 = until server closes)
	WaitEOFAfter int      // EndWaitEOF: offset at which the writer waits for EOF from the server
	// ReplyAfterEOF: keep reading replies after half-close (always true for EndHalfClose)
}

// Client is the observable outcome of a client script.
type Client struct {
	Plan      *ClientPlan
	Model     *ConnModel
	End       *simnet.End
	Received  []byte
	RecvEOF   bool
	RecvErr   error
	RecvEOFAt time.Duration
	WriteErr  error
	Wrote     int
	ConnErr   error
	WDone     bool
	RDone     bool
	HSDone    bool
	HSErr     error
	WDoneAt   time.Duration
	TLSState  tls.ConnectionState
	OnRecv    func(c *Client, p []byte)
	WaitingEOF bool
	eofCh      chan struct{}
}

func (c *Client) Finished() bool {
	lk()
	defer ulk()
	return c.WDone && c.RDone
}

// MakeChunks draws a client-level write schedule for n bytes.
func (e *Env) MakeChunks(n int, maxDelay time.Duration) []Chunk {
	var out []Chunk
	if n == 0 {
		return out
	}
	mode := e.T.Weighted("chunk-mode", 4, 3, 2, 1)
	delay := func() time.Duration {
		if maxDelay <= 0 || !e.T.Prob(1, 3, "chunk-delay?") {
			return 0
		}
		return time.Duration(1+e.T.Choose(int(maxDelay/time.Millisecond), "chunk-delay")) * time.Millisecond
	}
	switch mode {
	case 0: // whole
		out = append(out, Chunk{N: n})
	case 1: // a few pieces
		left := n
		for left > 0 && len(out) < 6 {
			k := 1 + e.T.Choose(left, "chunk-n")
			out = append(out, Chunk{N: k, Delay: delay()})
			left -= k
		}
		if left > 0 {
			out = append(out, Chunk{N: left, Delay: delay()})
		}
	case 2: // chunk-size pieces (around the prefetch chunk size)
		sz := e.T.Pick("chunk-sz", 2048, 2047, 2049, 1024, 4096, 512, 1460)
		for left := n; left > 0; {
			k := min(sz, left)
			out = append(out, Chunk{N: k, Delay: delay()})
			left -= k
		}
	default: // trickle the head, then the rest
		head := min(n, 1+e.T.Choose(24, "trickle-head"))
		for i := 0; i < head; i++ {
			out = append(out, Chunk{N: 1, Delay: delay()})
		}
		if n > head {
			out = append(out, Chunk{N: n - head, Delay: delay()})
		}
	}
	return out
}

// StartClient runs the script against the listener.
func (e *Env) StartClient(ln *simnet.Listener, p *ClientPlan, m *ConnModel) *Client {
	c := &Client{Plan: p, Model: m}
	name := "c" + strconv.Itoa(p.ID)
	e.S.Go(name, func() {
		if p.StartAt > 0 {
			time.Sleep(p.StartAt)
		}
		end, err := e.N.Connect(ln, name, p.Addr)
		if err != nil {
			lk()
			c.ConnErr, c.WDone, c.RDone = err, true, true
			ulk()
			return
		}
		lk()
		c.End = end
		ulk()
		var conn net.Conn = end.Conn()
		if len(p.Pre) > 0 {
			if _, err := conn.Write(p.Pre); err != nil {
				lk()
				c.WriteErr, c.WDone, c.RDone = err, true, true
				ulk()
				return
			}
		}
		var tc *tls.Conn
		if p.TLS != nil {
			tc = tls.Client(conn, p.TLS)
			if err := tc.Handshake(); err != nil {
				lk()
				c.HSErr, c.WDone, c.RDone = err, true, true
				ulk()
				_ = conn.Close()
				return
			}
			lk()
			c.HSDone = true
			c.TLSState = tc.ConnectionState()
			ulk()
			conn = tc
		}
		c.eofCh = make(chan struct{})
		// reader
		e.S.Go(name+".r", func() {
			defer close(c.eofCh)
			buf := make([]byte, 4096)
			for {
				n, err := conn.Read(buf)
				lk()
				if n > 0 {
					c.Received = append(c.Received, buf[:n]...)
				}
				if err != nil {
					c.RecvErr = err
					if err == io.EOF {
						c.RecvEOF = true
						c.RecvEOFAt = e.S.Elapsed()
					}
					c.RDone = true
				}
				ulk()
				if n > 0 && c.OnRecv != nil {
					c.OnRecv(c, buf[:n])
				}
				if err != nil {
					return
				}
			}
		})
		// writer
		off := 0
		aborted := false
		waited := false
		for _, ch := range p.Chunks {
			if p.End == EndWaitEOF && !waited && off >= p.WaitEOFAfter {
				lk()
				c.WaitingEOF = true
				ulk()
				<-c.eofCh
				lk()
				c.WaitingEOF = false
				ulk()
				waited = true
			}
			if ch.Delay > 0 {
				time.Sleep(ch.Delay)
			}
			n := ch.N
			if p.End == EndAbort && off+n > p.AbortAt {
				n = p.AbortAt - off
			}
			if n > 0 {
				w, err := conn.Write(p.App[off : off+n])
				off += w
				if err != nil {
					lk()
					c.WriteErr = err
					ulk()
					break
				}
			}
			if p.End == EndAbort && off >= p.AbortAt {
				aborted = true
				break
			}
		}
		lk()
		c.Wrote = off
		ulk()
		switch {
		case p.End == EndAbort && (aborted || off >= p.AbortAt):
			lk()
			m.Aborted = true
			ulk()
			end.Abort()
		case c.WriteErr != nil:
			_ = conn.Close()
		case p.End == EndHalfClose:
			if tc != nil {
				_ = tc.CloseWrite()
			} else {
				_ = conn.(interface{ CloseWrite() error }).CloseWrite()
			}
			lk()
			m.WroteAll = true
			ulk()
		case p.End == EndClose:
			lk()
			m.WroteAll = true // a graceful close delivers everything written before the FIN
			ulk()
			_ = conn.Close()
		case p.End == EndWaitEOF:
			if !waited {
				lk()
				c.WaitingEOF = true
				ulk()
				<-c.eofCh
				lk()
				c.WaitingEOF = false
				ulk()
			}
			lk()
			m.WroteAll = true
			ulk()
			_ = conn.Close()
		case p.End == EndLinger:
			if p.Linger > 0 {
				time.Sleep(p.Linger)
				_ = conn.Close()
			}
		}
		lk()
		c.WDone = true
		c.WDoneAt = e.S.Elapsed()
		ulk()
	})
	return c
}

// ---- server ---------------------------------------------------------------------------

// TCPWorld is a simulated listener served by the real Server.serve/handle.
type TCPWorld struct {
	E       *Env
	Ln      *simnet.Listener
	Srv     *layer4.Server
	Clients []*Client
	ServeErr error
	served  bool
	// KeepReads: timestamp every server-side socket read (timed oracles).
	KeepReads bool
}

func (e *Env) NewTCPWorld(routes layer4.RouteList, timeout time.Duration) *TCPWorld {
	w := &TCPWorld{E: e}
	w.Ln = e.N.Listen("ln", simnet.TCPAddr("10.0.0.1", 443))
	w.Srv = layer4.VerifNewServer(routes, timeout, e.Log)
	e.S.Go("srv", func() {
		err := w.Srv.VerifServe(w.Ln)
		lk()
		w.ServeErr, w.served = err, true
		ulk()
	})
	e.S.OnCleanup(func() {
		// closing the listener ends the accept loop
		e.S.Go("closer", func() { _ = w.Ln.Close() })
	})
	return w
}

// Done: all clients finished and every connection goroutine of the server returned.
func (w *TCPWorld) Done() bool {
	for _, c := range w.Clients {
		if !c.Finished() {
			return false
		}
	}
	return w.E.ChildrenIdle("srv")
}

// HandlersIdle reports whether no goroutine whose name starts with prefix is alive.
func (e *Env) HandlersIdle(prefix string) bool {
	for _, n := range e.S.Live() {
		if len(n) > len(prefix) && n[:len(prefix)] == prefix {
			return false
		}
	}
	return true
}

// ChildrenIdle reports whether no direct child goroutine of parent (the
// per-connection handler goroutines) is alive; deeper descendants (e.g. a tee
// branch blocked on its pipe) do not count.
func (e *Env) ChildrenIdle(parent string) bool {
	pre := parent + "."
	for _, n := range e.S.Live() {
		if len(n) > len(pre) && n[:len(pre)] == pre {
			rest := n[len(pre):]
			direct := true
			for i := 0; i < len(rest); i++ {
				if rest[i] < '0' || rest[i] > '9' {
					direct = false
					break
				}
			}
			if direct {
				return false
			}
		}
	}
	return true
}

func ClientAddr(i int) *net.TCPAddr {
	return simnet.TCPAddr(fmt.Sprintf("10.9.%d.%d", i/250, 1+i%250), 50000+i)
}
