package worlds

import (
	"io"
	"net"
	"strconv"
	"time"

	"github.com/mholt/caddy-l4/layer4"

	"verif/sim/simnet"
)

// UDPSend is one scripted datagram.
type UDPSend struct {
	Data  []byte
	Delay time.Duration // before sending
	// ToSock2: send to the world's second socket (if it has one)
	ToSock2 bool
}

type UDPClientPlan struct {
	ID     int
	Addr   *net.UDPAddr
	Sends  []UDPSend
	Faults simnet.UDPFaults
}

type UDPClient struct {
	Plan *UDPClientPlan
	Done bool
	Sent int
}

// UDPWorld is a simulated UDP socket served by the real Server.servePacket.
type UDPWorld struct {
	E        *Env
	Sock     *simnet.PacketSock
	Srv      *layer4.Server
	Clients  []*UDPClient
	ServeErr error
	Served   bool
	// Sock2: an optional second socket served by the same Server (one loop per socket)
	Sock2 *simnet.PacketSock
	// LastSendAt: simulated time at which the last client finished sending
	LastSendAt time.Duration
}

func (e *Env) NewUDPWorld(routes layer4.RouteList, timeout time.Duration) *UDPWorld {
	w := &UDPWorld{E: e}
	w.Sock = e.N.ListenPacket("usock", simnet.UDPAddr("10.0.0.1", 53))
	w.Srv = layer4.VerifNewServer(routes, timeout, e.Log)
	e.S.Go("usrv", func() {
		err := w.Srv.VerifServePacket(w.Sock)
		lk()
		w.ServeErr, w.Served = err, true
		ulk()
	})
	e.S.OnCleanup(func() {
		e.S.Go("ucloser", func() { _ = w.Sock.Close() })
	})
	return w
}

// AddSocket starts a second packet loop of the same Server on another local address.
func (w *UDPWorld) AddSocket() {
	e := w.E
	w.Sock2 = e.N.ListenPacket("usock2", simnet.UDPAddr("10.0.0.1", 54))
	e.S.Go("usrv2", func() { _ = w.Srv.VerifServePacket(w.Sock2) })
	e.S.OnCleanup(func() {
		e.S.Go("ucloser2", func() { _ = w.Sock2.Close() })
	})
}

func (w *UDPWorld) StartClient(p *UDPClientPlan) *UDPClient {
	c := &UDPClient{Plan: p}
	w.Clients = append(w.Clients, c)
	w.E.S.Go("u"+strconv.Itoa(p.ID), func() {
		for _, s := range p.Sends {
			if s.Delay > 0 {
				time.Sleep(s.Delay)
			}
			if s.ToSock2 && w.Sock2 != nil {
				w.Sock2.Send(p.Addr, s.Data, p.Faults)
			} else {
				w.Sock.Send(p.Addr, s.Data, p.Faults)
			}
			lk()
			c.Sent++
			ulk()
		}
		lk()
		c.Done = true
		if el := w.E.S.Elapsed(); el > w.LastSendAt {
			w.LastSendAt = el
		}
		ulk()
	})
	return c
}

// Done: all clients sent everything, nothing queued at the socket, and every
// per-association handler goroutine of the server loop returned ("usrv.1" is
// the socket reader, which lives as long as the socket).
func (w *UDPWorld) Done() bool {
	lk()
	for _, c := range w.Clients {
		if !c.Done {
			ulk()
			return false
		}
	}
	ulk()
	if w.Sock.QueueLen() > 0 || (w.Sock2 != nil && w.Sock2.QueueLen() > 0) {
		return false
	}
	for _, n := range w.E.S.Live() {
		pl := 5
		if len(n) > 6 && n[:6] == "usrv2." {
			pl = 6
		}
		if len(n) > pl && (n[:pl] == "usrv." || n[:pl] == "usrv2.") && n != "usrv.1" && n != "usrv2.1" {
			direct := true
			for i := pl; i < len(n); i++ {
				if n[i] < '0' || n[i] > '9' {
					direct = false
				}
			}
			if direct {
				return false
			}
		}
	}
	return true
}

func UDPClientAddr(i int) *net.UDPAddr {
	return simnet.UDPAddr("10.8.0."+strconv.Itoa(1+(i/2)%250), 40000+i) // pairs of clients share an IP
}

// AssocRec is what one UDP association (one handler invocation) observed.
type AssocRec struct {
	Client    string
	G         string // goroutine name of the handler
	StartStep int
	EndStep   int
	Reads     [][]byte
	EndErr    string
	Replies   int
	// EOFAfter: how long the Read call that ended in EOF had been waiting (0 = no EOF seen)
	EOFAfter time.Duration
	EOFAt    time.Duration
	// PostClose: data returned by Read calls made after the handler closed the connection
	PostClose [][]byte
	Closed    bool
}

// UDPRec is a harness handler for UDP associations: reads datagrams (with a
// buffer of BufSize), optionally replies to each, stops after MaxReads reads
// (0 = until EOF/error).
type UDPRec struct {
	E        *Env
	MaxReads int
	Reply    bool
	BufSize  int
	Log      *[]*AssocRec
	// SlowFor > 0: associations of SlowClient ("" = every client) do not read for
	// that long after they were started (a handler busy elsewhere); with SlowNoRead
	// they then return without ever reading.
	SlowClient string
	SlowFor    time.Duration
	SlowNoRead bool
	// CloseThenRead > 0: an association that stops after MaxReads closes its
	// connection itself and then calls Read that many more times (a copy loop
	// aborted from outside): what those reads return is recorded in PostClose.
	CloseThenRead int
	// ZeroReads: every Read is preceded by a Read with an empty buffer (a probe for
	// readability): it must not consume anything.
	ZeroReads bool
}

func (u *UDPRec) Handle(cx *layer4.Connection, _ layer4.Handler) error {
	rec := &AssocRec{Client: cx.RemoteAddr().String(), G: u.E.S.Name(), StartStep: u.E.S.StepNow()}
	lk()
	*u.Log = append(*u.Log, rec)
	ulk()
	bs := u.BufSize
	if bs <= 0 {
		bs = 9216
	}
	buf := make([]byte, bs)
	if u.SlowFor > 0 && (u.SlowClient == "" || u.SlowClient == rec.Client) {
		time.Sleep(u.SlowFor)
		u.E.S.Park("slow-handler")
		if u.SlowNoRead {
			es := u.E.S.StepNow()
			lk()
			rec.EndStep = es
			ulk()
			return nil
		}
	}
	for {
		t0 := u.E.S.Elapsed()
		var n int
		var err error
		if u.ZeroReads {
			n, err = cx.Read(buf[:0])
		}
		if err == nil {
			n, err = cx.Read(buf)
		}
		if err == io.EOF {
			now := u.E.S.Elapsed()
			lk()
			rec.EOFAfter, rec.EOFAt = now-t0, now
			if rec.EOFAfter == 0 {
				rec.EOFAfter = 1
			}
			ulk()
		}
		if n > 0 {
			d := append([]byte(nil), buf[:n]...)
			lk()
			rec.Reads = append(rec.Reads, d)
			ulk()
			if u.Reply {
				k := n
				if k > 16 {
					k = 16
				}
				if _, werr := cx.Write(append([]byte("re:"), d[:k]...)); werr == nil {
					lk()
					rec.Replies++
					ulk()
				}
			}
		}
		if err != nil {
			lk()
			rec.EndErr = err.Error()
			ulk()
			break
		}
		lk()
		nr := len(rec.Reads)
		ulk()
		if u.MaxReads > 0 && nr >= u.MaxReads {
			if u.CloseThenRead > 0 {
				_ = cx.Close()
				lk()
				rec.Closed = true
				ulk()
				for i := 0; i < u.CloseThenRead; i++ {
					n, err := cx.Read(buf)
					if n > 0 {
						d := append([]byte(nil), buf[:n]...)
						lk()
						rec.PostClose = append(rec.PostClose, d)
						ulk()
					}
					if err != nil && n == 0 {
						break
					}
				}
			}
			break
		}
	}
	es := u.E.S.StepNow()
	lk()
	rec.EndStep = es
	ulk()
	return nil
}
