// Package worlds builds the simulated worlds (W-tcp, W-udp, W-lw, W-proxy,
// W-socks) around the real caddy-l4 code and installs the simulation hooks.
package worlds

import (
	"reflect"
	"context"
	"unsafe"
	"crypto/ed25519"
	"crypto/rand"
	"crypto/tls"
	"crypto/x509"
	"crypto/x509/pkix"
	"math/big"
	"net"
	"sync"
	"testing"
	"time"

	"github.com/caddyserver/caddy/v2"
	"go.uber.org/zap"

	"github.com/mholt/caddy-l4/modules/l4proxy"
	socks5 "github.com/things-go/go-socks5"

	"verif/sim/hookreg"
	"verif/sim/simkit"
	"verif/sim/simnet"
)

// Env is everything one simulated run needs.
type Env struct {
	S    *simkit.Sim
	N    *simnet.Net
	T    *simkit.Tape
	Pool *PoisonPool
	Reg  *Registry
	// OnlyG: when set, harness matchers/handlers record and check only when
	// running on a goroutine whose name has this prefix (e.g. the first UDP
	// association); others just behave.
	OnlyG string
	// TimerLatency is added to every timer the code under test arms (real
	// timers fire late, never exactly on time; the bubble's are exact).
	TimerLatency time.Duration
	Log  *zap.Logger
	Ctx  caddy.Context
	stop context.CancelFunc
}

func NewEnv(seed uint64, tape *simkit.Tape) *Env {
	s := simkit.New(seed, tape)
	e := &Env{S: s, T: tape, N: simnet.New(s), Pool: NewPoisonPool(s), Log: zap.NewNop(), Reg: NewRegistry(), TimerLatency: time.Microsecond}
	return e
}

// Run executes one simulated run: setup builds the world inside the bubble.
func (e *Env) Run(t *testing.T, setup func() func() bool, finish func()) {
	e.install()
	defer e.uninstall()
	simkit.Run(t, e.S, func() func() bool {
		ctx, cancel := caddy.NewContext(caddy.Context{Context: context.Background()})
		e.Ctx = ctx
		e.stop = cancel
		e.S.OnCleanup(func() { cancel() })
		l4proxy.VerifResetPeers()
		return setup()
	}, finish)
}

func (e *Env) install() {
	goHook := func(f func()) { e.S.GoChild(f) }
	yield := func(site string) { e.S.Yield(site) }
	pick := func(site string, n int) int { return e.S.Pick(site, n) }
	dial := func(network, addr string, timeout time.Duration) (net.Conn, error) {
		return e.N.Dial(network, addr, timeout)
	}
	tlsDial := func(network, addr string, cfg *tls.Config) (net.Conn, error) {
		raw, err := e.N.Dial(network, addr, 0)
		if err != nil {
			return (*tls.Conn)(nil), err // what tls.Dial returns: a typed nil
		}
		if cfg == nil {
			cfg = &tls.Config{}
		}
		if cfg.ServerName == "" {
			c := cfg.Clone()
			host, _, _ := net.SplitHostPort(addr)
			c.ServerName = host
			cfg = c
		}
		c := tls.Client(raw, cfg)
		if err := c.Handshake(); err != nil {
			_ = raw.Close()
			return (*tls.Conn)(nil), err
		}
		return &SimTLSConn{Conn: c, e: e, mu: make(chan struct{}, 1)}, nil
	}
	skew := func(d time.Duration) time.Duration {
		if d < 0 {
			return d
		}
		return d + e.TimerLatency
	}
	syncp := func(site string) { e.S.Park("t:" + site) }
	// generic hooks: every instrumented package registers its hook variables (hookreg)
	for _, h := range hookreg.All {
		*h.TimerSkew, *h.Sync, *h.Go, *h.Yield, *h.Pick = skew, syncp, goHook, yield, pick
		*h.PoolGet, *h.PoolPut = e.Pool.Get, e.Pool.Put
	}
	l4proxy.VerifDialHook, l4proxy.VerifTLSDialHook = dial, tlsDial
	socks5.VerifDialHook = dial
	socks5.VerifListenUDPHook = func(network string, laddr *net.UDPAddr) (*net.UDPConn, error) {
		e.S.Stat("socks_listen_udp", 1)
		e.N.S.Lock()
		e.N.Dials = append(e.N.Dials, simnet.DialRec{At: e.S.Elapsed(), Network: "listen-udp", Addr: laddr.String(), By: "socks5"})
		e.N.S.Unlock()
		return nil, &net.OpError{Op: "listen", Net: network, Err: &simDenied{}}
	}
	socks5.VerifResolveHook = func(network, addr string) (*net.IPAddr, error) {
		if ip, ok := e.N.Resolve[addr]; ok {
			return &net.IPAddr{IP: ip}, nil
		}
		if ip := net.ParseIP(addr); ip != nil {
			return &net.IPAddr{IP: ip}, nil
		}
		return nil, &net.DNSError{Err: "no such host", Name: addr, IsNotFound: true}
	}
}

type simDenied struct{}

func (*simDenied) Error() string { return "simulated: operation not available" }

func (e *Env) uninstall() {
	for _, h := range hookreg.All {
		*h.TimerSkew, *h.Sync, *h.Go, *h.Yield, *h.Pick = nil, nil, nil, nil, nil
		*h.PoolGet, *h.PoolPut = nil, nil
	}
	l4proxy.VerifDialHook, l4proxy.VerifTLSDialHook = nil, nil
	socks5.VerifDialHook, socks5.VerifListenUDPHook, socks5.VerifResolveHook = nil, nil, nil
}

// ---- poisoning pool -------------------------------------------------------------

const Poison = 0xDB

// PoisonPool is the deterministic replacement of every sync.Pool in the instrumented
// packages: LIFO reuse (the most adversarial legal behaviour: whatever was put last is
// handed out next), and the full capacity of a byte buffer is overwritten when it is Put.
type PoisonPool struct {
	s      *simkit.Sim
	stacks map[any][]any
	Gets   int
	Puts   int
	Reuses int
	NoPoison bool
}

func NewPoisonPool(s *simkit.Sim) *PoisonPool {
	return &PoisonPool{s: s, stacks: map[any][]any{}}
}

// racePtr: the address standing for a pooled item in the race detector's happens-before
// graph (first byte of a buffer, or the pointee of a pointer).
func racePtr(x any) unsafe.Pointer {
	if b, ok := x.([]byte); ok {
		if cap(b) > 0 {
			return unsafe.Pointer(&b[:1][0])
		}
		return nil
	}
	if v := reflect.ValueOf(x); v.Kind() == reflect.Pointer && !v.IsNil() {
		return v.UnsafePointer()
	}
	return nil
}

//go:norace
func (p *PoisonPool) Get(key any, newf func() any) any {
	p.s.Lock()
	p.Gets++
	st := p.stacks[key]
	if n := len(st); n > 0 {
		x := st[n-1]
		p.stacks[key] = st[:n-1]
		p.Reuses++
		p.s.Unlock()
		// like sync.Pool: a Get happens after the Put that supplied the item
		if ptr := racePtr(x); ptr != nil {
			simkit.RaceAcquire(ptr)
		}
		return x
	}
	p.s.Unlock()
	if newf == nil {
		return nil
	}
	return newf()
}

//go:norace
func (p *PoisonPool) Put(key any, x any) {
	if x == nil {
		return
	}
	if ptr := racePtr(x); ptr != nil {
		simkit.RaceRelease(ptr)
	}
	p.s.Lock()
	defer p.s.Unlock()
	p.Puts++
	if b, ok := x.([]byte); ok && !p.NoPoison {
		full := b[:cap(b)]
		for i := range full {
			full[i] = Poison
		}
	}
	p.stacks[key] = append(p.stacks[key], x)
}

// ---- TLS material -----------------------------------------------------------------

var (
	certOnce sync.Once
	srvCert  tls.Certificate
)

// ServerCert returns a fixed-shape self-signed Ed25519 certificate valid
// around the bubble epoch (2000-01-01).
func ServerCert() tls.Certificate {
	certOnce.Do(func() {
		pub, priv, err := ed25519.GenerateKey(rand.Reader)
		if err != nil {
			panic(err)
		}
		tmpl := &x509.Certificate{
			SerialNumber: big.NewInt(1),
			Subject:      pkix.Name{CommonName: "sim.test"},
			NotBefore:    time.Date(1999, 1, 1, 0, 0, 0, 0, time.UTC),
			NotAfter:     time.Date(2100, 1, 1, 0, 0, 0, 0, time.UTC),
			DNSNames:     []string{"sim.test", "a.sim.test", "b.sim.test"},
			KeyUsage:     x509.KeyUsageDigitalSignature,
			ExtKeyUsage:  []x509.ExtKeyUsage{x509.ExtKeyUsageServerAuth},
		}
		der, err := x509.CreateCertificate(rand.Reader, tmpl, tmpl, pub, priv)
		if err != nil {
			panic(err)
		}
		srvCert = tls.Certificate{Certificate: [][]byte{der}, PrivateKey: priv}
	})
	return srvCert
}


// SimTLSConn is the *tls.Conn the proxy gets from its TLS dial seam. crypto/tls
// serialises Write, CloseWrite and Close's close_notify with a sync.Mutex that is
// held across writes to the transport; a goroutine parked by the simulator inside
// such a write while another one waits for that mutex is invisible to synctest (the
// bubble never quiesces). The wrapper keeps the same ordering with a lock the
// simulator can see (a channel: durable blocking), so the inner mutex is never
// contended: Close during a data Write goes straight to the transport (as tls.Conn
// does), Close during CloseWrite waits for it (as tls.Conn does).
type SimTLSConn struct {
	*tls.Conn
	e       *Env
	mu      chan struct{}
	inWrite int
}

// (a scheduling point before the attempt: who asks first is the scheduler's decision, not the
// outcome of two goroutines racing for the channel)
func (c *SimTLSConn) lock()   { c.e.S.Park("tlsmu?"); c.mu <- struct{}{}; c.e.S.Park("tlsmu") }
func (c *SimTLSConn) unlock() { <-c.mu }

func (c *SimTLSConn) Write(b []byte) (int, error) {
	lk()
	c.inWrite++
	ulk()
	n, err := c.Conn.Write(b)
	lk()
	c.inWrite--
	ulk()
	return n, err
}

func (c *SimTLSConn) CloseWrite() error {
	c.lock()
	defer c.unlock()
	return c.Conn.CloseWrite()
}

func (c *SimTLSConn) Close() error {
	lk()
	busy := c.inWrite > 0
	ulk()
	if busy {
		return c.Conn.Close() // interlocked with Write inside crypto/tls: closes the transport only
	}
	c.lock()
	defer c.unlock()
	return c.Conn.Close()
}
