package worlds

import (
	"bytes"
	"sync/atomic"
	"strings"
	"crypto/tls"
	"io"
	"net"
	"strconv"
	"time"

	"github.com/mholt/caddy-l4/layer4"
	"github.com/mholt/caddy-l4/modules/l4proxy"

	"verif/sim/simnet"
)

// Upstream script modes.
const (
	UpSink       = iota // read to EOF, then close
	UpEcho              // echo until EOF, then close
	UpSource            // send SendLen bytes, half-close, then read to EOF, close
	UpReplyAtEOF        // read to EOF, then send SendLen bytes, then close (tests half-close propagation)
	UpDuplex            // send and receive concurrently; close when both done
)

// UpScript scripts a simulated upstream server.
type UpScript struct {
	Mode       int
	SendLen    int
	SendChunks []Chunk
	// AbortAt >= 0: reset the connection after receiving this many bytes
	AbortAt int
	// EchoTimes > 1: an echoing datagram upstream answers each datagram with that many copies of
	// it in ONE datagram (answers larger than anything the client sent).
	EchoTimes int
	// StallBeforeRead delays the first read (a slow upstream).
	StallBeforeRead time.Duration
	// NoCloseWrite: finish sending with a full Close instead of a half-close
	NoCloseWrite bool
	// Tag: top two bits of every byte this upstream sends (multi-peer decoding)
	Tag byte
	Key uint64
	// AbortOnAccept: reset every connection as soon as it has been accepted (before reading)
	AbortOnAccept bool
	// TLS: the upstream speaks TLS (the proxy dials it with its `tls` option);
	// half-close is a close_notify alert
	TLS bool
	// TLSMaxVersion: 0 = default; tls.VersionTLS12 makes the final data record and the
	// close_notify alert arrive in one read at the peer (Read returns n > 0 together with EOF)
	TLSMaxVersion uint16
}

// UpByte is byte i of the stream sent by an upstream with the given tag/key.
func UpByte(tag byte, key uint64, i int) byte {
	return tag<<6 | (StreamByte(key, i) & 0x3f)
}

// UpConnRec is what one accepted upstream connection observed.
type UpConnRec struct {
	Addr      string
	Idx       int
	By        string // name of the dialing goroutine
	Received  []byte
	SawEOF    bool
	SawEOFAt  time.Duration
	RecvErr   error
	Sent      int
	SendErr   error
	SentAllAt time.Duration
	Done      bool
	DoneAt    time.Duration
	AcceptAt  time.Duration
	FirstDataStep int // global event number of the first byte received (0 = none yet)
	FirstDataAt   time.Duration
	SNI           string // TLS upstreams: server name in the ClientHello of this connection ("-" = none seen)
	End       *simnet.End
	Script    *UpScript
	Health    bool // connection made by a health check (closed at once by the prober)
	InWrite   bool // the upstream script is inside a Write right now (blocked if the run is over)
}

// ProxyUps manages the simulated upstream servers of a proxy world.
type ProxyUps struct {
	E    *Env
	Recs []*UpConnRec
	Ups  map[string]*simnet.Upstream
	// ScriptFor picks the script for the idx-th connection to addr.
	ScriptFor func(addr string, idx int) *UpScript
}

func (e *Env) NewProxyUps() *ProxyUps {
	return &ProxyUps{E: e, Ups: map[string]*simnet.Upstream{}}
}

// Add registers an upstream server at addr ("10.1.0.1:80").
func (p *ProxyUps) Add(network, addr string, maxDialLatencyMs int) *simnet.Upstream {
	u := p.E.N.AddUpstream(network, addr, func(c net.Conn, end *simnet.End, idx int) {
		p.serve(addr, c, end, idx)
	})
	u.MaxDialLatencyMs = maxDialLatencyMs
	p.Ups[addr] = u
	return u
}

func (p *ProxyUps) serve(addr string, c net.Conn, end *simnet.End, idx int) {
	e := p.E
	sc := p.ScriptFor(addr, idx)
	// the dialling end is named "<goroutine>><addr>#<n>": keep the goroutine
	by := end.Peer().Name
	if i := strings.Index(by, ">"); i >= 0 {
		by = by[:i]
	}
	rec := &UpConnRec{Addr: addr, Idx: idx, End: end, Script: sc, AcceptAt: e.S.Elapsed(), By: by}
	lk()
	p.Recs = append(p.Recs, rec)
	ulk()
	if sc.StallBeforeRead > 0 {
		time.Sleep(sc.StallBeforeRead)
	}
	finish := func() {
		lk()
		rec.Done, rec.DoneAt = true, e.S.Elapsed()
		ulk()
	}
	if sc.AbortOnAccept {
		end.Abort()
		lk()
		rec.RecvErr = io.ErrClosedPipe
		ulk()
		finish()
		return
	}
	if sc.TLS {
		tc := tls.Server(c, &tls.Config{Certificates: []tls.Certificate{ServerCert()}, MaxVersion: sc.TLSMaxVersion, GetConfigForClient: func(hi *tls.ClientHelloInfo) (*tls.Config, error) {
			lk()
			rec.SNI = hi.ServerName
			if rec.SNI == "" {
				rec.SNI = "-"
			}
			ulk()
			return nil, nil
		}})
		if err := tc.Handshake(); err != nil {
			lk()
			rec.RecvErr = err
			ulk()
			_ = c.Close()
			finish()
			return
		}
		c = tc
	}
	read := func(echo bool) {
		buf := make([]byte, 4096)
		if end.Dgram() {
			buf = make([]byte, 65536) // a datagram read into a smaller buffer loses its tail
		}
		for {
			n, err := c.Read(buf)
			if n > 0 {
				st := e.S.StepNow()
				lk()
				if rec.FirstDataStep == 0 {
					rec.FirstDataStep = st
					rec.FirstDataAt = e.S.Elapsed()
				}
				rec.Received = append(rec.Received, buf[:n]...)
				total := len(rec.Received)
				ulk()
				if echo {
					lk()
					rec.InWrite = true
					ulk()
					out := buf[:n]
					if sc.EchoTimes > 1 && end.Dgram() {
						out = bytes.Repeat(buf[:n], sc.EchoTimes)
					}
					_, werr := c.Write(out)
					lk()
					rec.InWrite = false
					ulk()
					if werr != nil {
						lk()
						rec.SendErr = werr
						ulk()
					} else {
						lk()
						rec.Sent += n
						ulk()
					}
				}
				if sc.AbortAt >= 0 && total >= sc.AbortAt {
					end.Abort()
					lk()
					rec.RecvErr = io.ErrClosedPipe
					ulk()
					return
				}
			}
			if err != nil {
				lk()
				if err == io.EOF {
					rec.SawEOF, rec.SawEOFAt = true, e.S.Elapsed()
				} else {
					rec.RecvErr = err
				}
				ulk()
				return
			}
		}
	}
	send := func() bool {
		off := 0
		chunks := sc.SendChunks
		if len(chunks) == 0 && sc.SendLen > 0 {
			chunks = []Chunk{{N: sc.SendLen}}
		}
		for _, ch := range chunks {
			if ch.Delay > 0 {
				time.Sleep(ch.Delay)
			}
			b := make([]byte, ch.N)
			for i := range b {
				b[i] = UpByte(sc.Tag, sc.Key, off+i)
			}
			lk()
			rec.InWrite = true
			ulk()
			n, err := c.Write(b)
			off += n
			lk()
			rec.InWrite = false
			rec.Sent = off
			ulk()
			if err != nil {
				lk()
				rec.SendErr = err
				ulk()
				return false
			}
		}
		lk()
		rec.SentAllAt = e.S.Elapsed()
		ulk()
		return true
	}
	halfClose := func() {
		if cw, ok := c.(interface{ CloseWrite() error }); ok && !sc.NoCloseWrite {
			_ = cw.CloseWrite()
		} else {
			_ = c.Close()
		}
	}
	switch sc.Mode {
	case UpSink:
		read(false)
		_ = c.Close()
	case UpEcho:
		read(true)
		_ = c.Close()
	case UpSource:
		if send() {
			halfClose()
		}
		read(false)
		_ = c.Close()
	case UpReplyAtEOF:
		read(false)
		if rec.SawEOF {
			send()
		}
		_ = c.Close()
	case UpDuplex:
		done := make(chan struct{})
		e.S.Go("up:"+addr+"#"+strconv.Itoa(idx)+".w", func() {
			if send() {
				halfClose()
			}
			close(done)
		})
		read(false)
		<-done
		_ = c.Close()
	}
	finish()
}

// RecsSnapshot returns a copy of the records.
func (p *ProxyUps) RecsSnapshot() []*UpConnRec {
	lk()
	defer ulk()
	return append([]*UpConnRec(nil), p.Recs...)
}

// ---- recording selector -----------------------------------------------------------

// UpState is the observable state of one upstream at a Select instant.
type UpState struct {
	Dial      string
	Available bool
	Healthy   bool
	Full      bool
	Conns     int
	Peers     []l4proxy.VerifPeerState
}

// SelectEvent is one call of the selection policy.
type SelectEvent struct {
	At      time.Duration
	Step    int
	EndStep int // step at which the call returned: two calls overlap if their [Step, EndStep] intersect
	EndAt   time.Duration
	// Exclusive: no other goroutine and no simulator event ran between the two snapshots
	Exclusive bool
	Client  string
	Before  []UpState
	After   []UpState
	Result  int // index into the pool, -1 = nil
	By      string
	Stable  bool // availability and connection counts identical before and after the call
	// AvailStable: availability identical before and after the call (connection counts may
	// have moved): enough to judge membership of the result in the available set
	AvailStable bool
	// CountMoves: connection-counter updates (passes of the countConn yield site) during the call
	CountMoves int64
}

// RecSelector wraps the shipped policy and records every selection.
type RecSelector struct {
	E      *Env
	Inner  l4proxy.Selector
	Events []SelectEvent
}

func snapshot(pool l4proxy.UpstreamPool) []UpState {
	out := make([]UpState, len(pool))
	for i, u := range pool {
		out[i] = UpState{Dial: u.String(), Available: u.VerifAvailable(), Healthy: u.VerifHealthy(), Full: u.VerifFull(), Conns: u.VerifTotalConns(), Peers: u.VerifPeers()}
	}
	return out
}

func (r *RecSelector) Select(pool l4proxy.UpstreamPool, cx *layer4.Connection) *l4proxy.Upstream {
	r.E.S.NoYield++
	me := r.E.S.Name()
	ev := SelectEvent{At: r.E.S.Elapsed(), Step: r.E.S.StepNow(), Client: cx.Conn.RemoteAddr().String(), By: me, Before: snapshot(pool), Result: -1}
	p0 := r.E.S.ParksOf(me)
	w0 := atomic.LoadInt64(&r.E.S.WatchPasses)
	r.E.S.NoYield--
	res := r.Inner.Select(pool, cx)
	r.E.S.NoYield++
	ev.CountMoves = atomic.LoadInt64(&r.E.S.WatchPasses) - w0
	ev.After = snapshot(pool)
	ev.EndStep, ev.EndAt = r.E.S.StepNow(), r.E.S.Elapsed()
	ev.Exclusive = ev.EndStep-ev.Step == r.E.S.ParksOf(me)-p0
	r.E.S.NoYield--
	ev.Stable, ev.AvailStable = true, true
	for i := range ev.Before {
		if ev.Before[i].Available != ev.After[i].Available || ev.Before[i].Conns != ev.After[i].Conns {
			ev.Stable = false
		}
		if ev.Before[i].Available != ev.After[i].Available {
			ev.AvailStable = false
		}
	}
	for i, u := range pool {
		if u == res {
			ev.Result = i
		}
	}
	if res != nil && ev.Result < 0 {
		ev.Result = -2 // not a member of the pool
	}
	lk()
	r.Events = append(r.Events, ev)
	ulk()
	return res
}
