#!/bin/bash
# mutcheck.sh <seeded-name> <check-id> [check args...]: apply a kept breakage to /repo, run one check, undo.
# Evidence files are restored afterwards (a run against a patched tree is not evidence).
set -u
name=$1; chk=$2; shift 2
[ -z "$(git -C /repo status --porcelain --untracked-files=no)" ] || { echo "/repo dirty"; exit 2; }
bak=$(mktemp -d); cp -r /verif/evidence "$bak/"
git -C /repo apply "/verif/seeded/$name/patch.diff" || { rm -rf "$bak"; exit 2; }
cd /verif && ./check "$chk" "$@" 2>&1 | grep '^VIOLATION\|^  C\|^check\|^HARNESS\|^KNOWN' | cut -c1-330 | head -8
git -C /repo checkout -- .
rm -rf /verif/evidence; cp -r "$bak/evidence" /verif/evidence; rm -rf "$bak" /verif/replays/C[0-9]*
