#!/usr/bin/env python3
"""Confirm and evaluate a deliberate breakage written by a sub-agent.

  seeded_eval.py <prop> <n> <agent_out_dir> [--checks C01,C08] [--runs N] [--name dir]

1. scratch worktree of /repo HEAD: patch applies, builds, existing tests pass,
   the demonstration FAILS with the patch and PASSES without it;
2. patch applied to /repo, the property's check (and any extra checks) run, patch
   undone (git checkout);
3. everything is recorded under /verif/seeded/<prop>-<n>/ (patch.diff, demo, meta.json).
"""
import json, os, shutil, subprocess, sys, tempfile, re

ENV = dict(os.environ, GOFLAGS="-mod=mod", GOPROXY="off", GOSUMDB="off")

def sh(cmd, cwd=None, timeout=1800):
    r = subprocess.run(cmd, shell=True, cwd=cwd, env=ENV, capture_output=True, text=True, timeout=timeout)
    return r.returncode, (r.stdout + r.stderr)

def keep_evidence(fn):
    """Checks run against a patched /repo must not leave their evidence behind."""
    import tempfile, shutil
    bak = tempfile.mkdtemp(prefix="EVIDENCE_BACKUP-")
    shutil.copytree("/verif/evidence", os.path.join(bak, "evidence"))
    try:
        return fn()
    finally:
        shutil.rmtree("/verif/evidence", ignore_errors=True)
        shutil.copytree(os.path.join(bak, "evidence"), "/verif/evidence")
        shutil.rmtree(bak, ignore_errors=True)

def main():
    prop, n, out = sys.argv[1], sys.argv[2], sys.argv[3]
    checks = [prop]
    runs = None
    args = sys.argv[4:]
    for i, a in enumerate(args):
        if a == "--checks":
            checks = args[i + 1].split(",")
        if a == "--runs":
            runs = args[i + 1]
        if a == "--name":
            global NAME
            NAME = args[i + 1]
    patch = os.path.join(out, "patch%s.diff" % n)
    demo = os.path.join(out, "demo%s_test.go" % n)
    metaf = os.path.join(out, "meta%s.json" % n)
    meta = {}
    if os.path.exists(metaf):
        try:
            meta = json.load(open(metaf))
        except Exception as e:
            meta = {"unparsed_meta": open(metaf).read()[:2000]}
    res = {"property": prop, "agent_meta": meta, "confirmed": False}
    wt = tempfile.mkdtemp(prefix="seedchk-")
    shutil.rmtree(wt)
    rc, o = sh("git -C /repo worktree add -q --detach %s HEAD" % wt)
    try:
        rc, o = sh("git apply --check %s && git apply %s" % (patch, patch), cwd=wt)
        res["applies"] = rc == 0
        if rc != 0:
            res["apply_error"] = o[-800:]
            return finish(res, prop, n, patch, demo)
        rc, o = sh("go build ./... 2>&1 | tail -5", cwd=wt)
        res["builds"] = rc == 0 and "error" not in o.lower()
        rc, o = sh("go test -vet=off -count=1 ./... 2>&1 | grep -v 'no test files' | tail -25", cwd=wt, timeout=2400)
        res["existing_tests_pass_with_patch"] = ("FAIL" not in o)
        res["existing_tests_tail"] = o[-600:]
        pkg = meta.get("demo_package_dir") or guess_pkg(demo)
        res["demo_package_dir"] = pkg
        if os.path.exists(demo) and pkg:
            dst = os.path.join(wt, pkg, "zz_seeded_demo_test.go")
            shutil.copy(demo, dst)
            race = "-race " if "-race" in str(meta.get("demo_cmd", "")) else ""
            m = re.search(r"-run[ =]+'?\"?([^'\" ]+)", str(meta.get("demo_cmd", "")))
            runflag = ("-run '%s' " % m.group(1)) if m else ""
            rc1, o1 = sh("go test %s-vet=off -count=1 %s./%s 2>&1 | tail -15" % (race, runflag, pkg), cwd=wt, timeout=1200)
            res["demo_fails_with_patch"] = ("FAIL" in o1 or "panic" in o1)
            res["demo_with_patch_tail"] = o1[-500:]
            sh("git apply -R %s" % patch, cwd=wt)
            rc2, o2 = sh("go test %s-vet=off -count=1 %s./%s 2>&1 | tail -8" % (race, runflag, pkg), cwd=wt, timeout=1200)
            res["demo_passes_without_patch"] = ("FAIL" not in o2 and "panic" not in o2 and "ok" in o2)
            res["demo_without_patch_tail"] = o2[-300:]
        res["confirmed"] = bool(res.get("applies") and res.get("builds") and res.get("existing_tests_pass_with_patch")
                                and res.get("demo_fails_with_patch") and res.get("demo_passes_without_patch"))
    finally:
        sh("git -C /repo worktree remove --force %s" % wt)
        shutil.rmtree(wt, ignore_errors=True)
    # run the checks against the patched /repo (or, SEED_REPO set, against that scratch copy of it,
    # with a replay directory of its own - usable while another evaluation holds /repo)
    repo = os.environ.get("SEED_REPO") or "/repo"
    pre = ""
    if repo != "/repo":
        pre = "VERIF_REPO=%s VERIF_REPLAYS_ROOT=%s-replays " % (repo, repo)
    rc, o = sh("git -C %s diff --quiet" % repo)
    if rc != 0:
        res["error"] = "%s dirty, not running checks" % repo
        return finish(res, prop, n, patch, demo)
    rc, o = sh("git -C %s apply %s" % (repo, patch))
    res["checks"] = {}
    try:
        for c in checks:
            cmd = pre + "./check %s" % c + ((" --runs %s" % runs) if runs else "")
            rc, o = sh(cmd + " 2>&1 | grep -v '^KNOWN' | grep '^VIOLATION\\|^  C\\|^check\\|^HARNESS' | cut -c1-400 | head -12", cwd="/verif", timeout=3000)
            det = "VIOLATION property=" in o
            res["checks"][c] = {"detected": det, "output": o[-1500:]}
    finally:
        sh("git -C %s checkout -- ." % repo)
        if repo == "/repo":
            sh("rm -rf /verif/replays/C[0-9]*")
        else:
            sh("rm -rf %s-replays" % repo)
    return finish(res, prop, n, patch, demo)

def guess_pkg(demo):
    try:
        m = re.search(r"^package (\w+)", open(demo).read(), re.M)
        name = m.group(1).replace("_test", "")
        for d in ["layer4"] + ["modules/" + x for x in os.listdir("/repo/modules")]:
            if os.path.basename(d) == name:
                return d
    except Exception:
        pass
    return None

NAME = None

def finish(res, prop, n, patch, demo):
    d = "/verif/seeded/%s" % (NAME or "%s-%s" % (prop, n))
    os.makedirs(d, exist_ok=True)
    if os.path.exists(patch):
        shutil.copy(patch, os.path.join(d, "patch.diff"))
    if os.path.exists(demo):
        shutil.copy(demo, os.path.join(d, "demo_test.go.txt"))
    json.dump(res, open(os.path.join(d, "meta.json"), "w"), indent=1)
    print(json.dumps({k: v for k, v in res.items() if k not in ("agent_meta", "existing_tests_tail")}, indent=1)[:3000])

if __name__ == "__main__":
    if os.environ.get("SEED_REPO"):
        main()  # (evidence is regenerated on the clean tree afterwards; no backup/restore race with the other evaluation)
    else:
        keep_evidence(main)
