#!/usr/bin/env python3
"""Re-run the checks against every kept breakage under /verif/seeded.

  seeded_regress.py [name-prefix ...]

For each /verif/seeded/<name>/ the patch is applied to /repo, the property's own
check (quick tier) is run, and the patch is undone. Prints one line per breakage
and updates "last_regress" in its meta.json. Never run a check concurrently.
"""
import json, os, subprocess, sys, time

def sh(cmd, timeout=3000):
    r = subprocess.run(cmd, shell=True, capture_output=True, text=True, timeout=timeout)
    return r.returncode, r.stdout + r.stderr

def keep_evidence(fn):
    """Checks run against a patched /repo must not leave their evidence behind."""
    import tempfile, shutil
    bak = tempfile.mkdtemp(prefix="EVIDENCE_BACKUP-")
    shutil.copytree("/verif/evidence", os.path.join(bak, "evidence"))
    try:
        return fn()
    finally:
        shutil.rmtree("/verif/evidence", ignore_errors=True)
        shutil.copytree(os.path.join(bak, "evidence"), "/verif/evidence")
        shutil.rmtree(bak, ignore_errors=True)

def main():
    pref = sys.argv[1:]
    names = sorted(os.listdir("/verif/seeded"))
    rc, o = sh("git -C /repo status --porcelain --untracked-files=no")
    if o.strip():
        print("/repo is dirty; refusing"); sys.exit(2)
    missed = []
    for n in names:
        d = os.path.join("/verif/seeded", n)
        if not os.path.exists(os.path.join(d, "patch.diff")):
            continue
        if pref and not any(n.startswith(p) for p in pref):
            continue
        meta = json.load(open(os.path.join(d, "meta.json")))
        prop = meta.get("property") or n.split("-")[0]
        # the property's own check first; a change found only by a related check keeps that one too
        checks = meta.get("regress_checks") or [prop]
        rc, o = sh("git -C /repo apply %s/patch.diff" % d)
        if rc != 0:
            print("%-12s APPLY-FAILED %s" % (n, o.strip()[:200])); continue
        res = {}
        try:
            for c in checks:
                t0 = time.time()
                rc, o = sh("cd /verif && ./check %s 2>&1 | grep '^VIOLATION\\|^  C\\|^check\\|^HARNESS' | head -4" % c)
                tagl = [l.strip() for l in o.splitlines() if l.startswith("  C")]
                res[c] = {"detected": "VIOLATION property=" in o, "first": (tagl[0][:160] if tagl else ""), "wall_s": round(time.time() - t0, 1)}
        finally:
            sh("git -C /repo checkout -- .")
            sh("rm -rf /verif/replays/C[0-9]*")
        det = any(v["detected"] for v in res.values())
        if not det:
            missed.append(n)
        meta["last_regress"] = res
        json.dump(meta, open(os.path.join(d, "meta.json"), "w"), indent=1)
        print("%-12s %s %s" % (n, "DETECTED" if det else "MISSED  ", "; ".join("%s: %s" % (c, v["first"][:110]) for c, v in res.items())), flush=True)
    print("missed:", missed)

if __name__ == "__main__":
    keep_evidence(main)
