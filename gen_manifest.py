#!/usr/bin/env python3
"""Regenerates MANIFEST.json from the table below (kept in one place so the
manifest stays valid while checks are added)."""
import json
CLAIMED = {
 "C01": ("§6 C01", "Seeded simulation of the real router, wrappers (proxy_protocol, tls, throttle, tee, subroute, echo) and Connection buffer over a simulated network with segmentation, short reads, latency, windows, half-close and reset; every consuming handler's reads are compared byte for byte with a reference stream at every read. Exploration: a clean batch is evidence, not proof.",
         "simulated network and clock (testing/synctest) stand in for the kernel; harness spec matchers stand in for arbitrary matcher read patterns; TLS client is crypto/tls"),
 "C02": ("§6 C02", "Seeded simulation of the real RouteList.Compile state machine (nested subroutes, and/or/not matcher sets, never-deciding and erroring matchers, terminal and non-terminal handlers) under arbitrary arrival schedules, optionally a second connection through the same compiled configuration; the recorded history of leaf evaluations, handler invocations and fallback marks is checked against an independent executable spec of the documented combination rules. Exploration (sampled, not exhaustive).",
         "spec matchers with published pure verdict functions stand in for real matchers; the W-tcp top-level fallback (close) is observable only as absence of handlers, subroute fallbacks are observed directly; listener-wrapper fallback is covered by C13"),
 "C05": ("§6 C05", "Seeded simulation on the bubble clock (exact simulated time) of the matching phase over TCP and UDP with silent, trickling, flooding and stalling clients, timeouts 50ms..5s, sub-second start phases, nested subroute timeouts and empty route lists; timed oracle: not late, not early while undecided, bounded buffering, no handler after the deadline, deadline cleared for handlers and fallbacks.",
         "simulated clock and network; timers armed by the code under test fire 1us..3ms late (tape-chosen), as real timers do; UDP: only the first association of a client is judged"),
 "C17": ("§6 C17", "Seeded simulation of the real throttle handler and golang.org/x/time/rate on the bubble clock with 1..16 concurrent connections sharing the total limiter; every read reaching a client socket is timestamped exactly and checked against burst + rate*T per connection and in total, first read not before latency, stream intact.",
         "bound is measured from the first read attempt of the connection (resp. of any connection for the total limiter); 0.05 byte slack for float rounding in x/time/rate"),
 "C13": ("§6 C13", "Seeded simulation of the real ListenerWrapper (accept loop, handler goroutines, connChan hand-off, shutdown draining) with one or two listeners per wrapper, mixes of terminal / fall-through / failing / TLS-terminated / two-step connections, slow consumers that close once or twice, connChan capacities 1..16, temporary accept errors and Close at arbitrary instants; oracle: exactly-once census, byte-exact replay through the poisoning pool, TLS connection state, closure of consumed/rejected connections, delivery by the listener the connection arrived on, Accept reporting closure within 20 ms of Close, no goroutine left, bounded liveness after Close.",
         "connection classes are decided by the first stream byte through spec matchers plus the real tls matcher/handler; GOMAXPROCS is set per run to choose the connChan capacity"),
 "C09": ("§6 C09", "Seeded simulation of the real UDP server loop and packetConn (reader goroutine, udpConns table, readCh/closeCh/closed protocol, idle and deadline timers) with 1..14 client addresses, bursts beyond the channel capacities, handlers that stay away from their queue or leave without reading, drop/dup/reorder/delay before arrival, handlers that finish after k datagrams, idle expiry, temporary read errors and socket Close; inserted yield points and a tape-driven select make the close/arrival windows explorable and replayable. Oracle over arrival order at the socket; process survival and bounded liveness of the loop (no permanent stall while the socket is open) are part of the verdict.",
         "no order is demanded between two simultaneously alive associations of one client (a stale close notification can start a second one); datagrams queued in an association that ends are excusably lost; goroutine exit at shutdown is not part of the statement and not checked"),
 "C03": ("§6 C03", "Seeded simulation of the real proxy handler (dial, chained TeeReader pump, per-upstream copiers, CloseWrite propagation, deferred cleanup) behind optional matcher/consume/throttle/proxy_protocol/tls handlers against 1..3 scripted upstream peers, optionally over TLS (the proxy's tls option); a datagram variant puts the real UDP server loop in front of the proxy with simulated UDP upstreams (fresh associations redial); reference streams in both directions, EOF propagation in either order while the other direction still flows, handler return, upstream closure and goroutine census, bounded liveness; faults (resets, stalls, early full close) in a separate configuration with prefix-only oracles.",
         "TLS-terminated downstream is explored with a single peer (two relay goroutines writing one tls.Conn contend on a sync.Mutex that synctest cannot see); the TLS dial seam returns a wrapper that keeps crypto/tls's Write/CloseWrite/Close ordering with a simulator-visible lock"),
 "C10": ("§6 C10", "The shipped selection policies run inside the real proxy handler behind a recording wrapper, in a simulated world with outages, health checks, limits and bursts of concurrent connections; at every Select the result is checked against the set the shipped available() reports at that instant (membership, none iff empty, first, round-robin fairness per window, ip_hash determinism and stability under removals, least_conn minimum); selections during which only connection counts moved are still judged for membership unless availability may have flipped and flipped back during the call (decided from the dial log); connection counts are conserved; that availability snapshot is itself checked against the stated rule evaluated on the raw per-peer counters; empty pools by direct invocation; panics are violations.",
         "availability is taken from the implementation (its correctness is C11's subject); Select events during which availability changed concurrently are skipped; math/rand is seeded per run"),
 "C11": ("§6 C11", "Same world; the recorded history of dials, probes, selections, connection lifetimes and handler durations on the simulated clock is checked against a reference model of passive failure windows, active-check convergence, retry spacing/duration and connection limits; counters read through an accessor must never be negative and connection counts are conserved (never above the number of running handlers connected to the peer, zero when all have returned); a configuration reload mid-run (new handler on the same addresses, old one cancelled) is one of the drawn operations.",
         "instants exactly on a window edge are skipped; limits are checked for connections in their relay phase; outages are 'connection refused' (net.Dial has no timeout, a blackhole would mean the OS default)"),
 "C12": ("§6 C12", "Seeded simulation of the proxy_protocol matcher/handler and of the proxy handler's header emission (and their composition through a second simulated layer4 server), with headers from an independent encoder split/coalesced arbitrarily, allow lists, aborts mid-header, and an independent decoder at the upstream; payload integrity by the C01 oracle, addresses seen by handlers / ip matchers / placeholders, exact single header of the configured version with the effective addresses followed by the stream; a complete well-formed header behind the shipped matcher must enter the route however it was split.",
         "v1 UNKNOWN and v2 LOCAL/UNSPEC headers declare no addresses: what the third-party library reports then is not judged; v2 headers with TLVs are rejected by the library (connection closed), which the oracle accepts"),
 "C16": ("§6 C16", "Seeded simulation of the real SOCKS5 handler over go-socks5 (instrumented copy: its dial, UDP listen and resolver calls go to the simulated network) with drawn command subsets and credential maps and scripted client negotiations (all method lists, credentials, command codes, address types, versions, truncations, segmentations); a small RFC 1928/1929 model decides permission and the census of outbound dials / UDP binds is compared with it; permitted CONNECT relays byte-exactly.",
         "name resolution through the (simulated) resolver is not counted as an outbound connection; UDP ASSOCIATE relaying itself is not exercised (the simulated ListenUDP records the bind and refuses)"),
 "C04": ("§6 C04", "Adversarial-client simulation (strength: sampling over inputs): per run one client offers random bytes, generator-made well-formed first messages, structure-aware and generic mutations of them to a shipped matcher (default and filtered configurations) or parsing handler over simulated TCP or UDP, under arbitrary segmentation and with close / reset / stall at an arbitrary byte; a panic or a run that never leaves repository code kills the worker and is reported with its seed; every matcher evaluation's allocation (MemStats.TotalAlloc delta) must stay below 64 x MaxMatchingBytes (net/http alone costs 28 bytes per input byte on a buffer of minimal header lines).",
         "the quic matcher (spins a real quic-go listener with its own goroutines and timers) is not run inside the bubble; allocation is measured for matchers, handlers are checked for survival only; crash replays are by seed (the tape of a crashed run cannot be shrunk in-process)"),
 "C06": ("§6 C06", "Each input (generator-made valid message with trailing data, or a mutation) is delivered to the real router several times: whole, then under tape-chosen segmentations, optionally with a second deciding matcher set OR'ed into the route; a wrapper evaluates the shipped matcher twice per round and watches the client socket's read counter and the prefetch buffer. Oracle: no socket reads while matching, buffer untouched, repeatable verdict, a message that matches with the whole message buffered matches under every delivery, and a 'no' on a prefix is never followed by a 'yes' on a longer prefix of the same input.",
         "matchers that by design reject trailing bytes (dns/tcp, rdp, openvpn/tcp, winbox) get no trailing data; the quic matcher is excluded (see C04); inputs larger than MaxMatchingBytes are exempt from the whole-message reference"),
 "C08": ("§6 C08", "Three phases. (1) 2..64 simultaneous connections with distinct position-coded streams through one shared configuration (shared throttle limiter, tee, subroute, proxy with a drawn policy over shared upstreams, openvpn matcher, deterministic poisoning buffer pool): every handler, branch, upstream and echo must see exactly its own connection's stream and each connection must take the route its own bytes select. (1b) The listener-wrapper world (hand-off of prefetched bytes to a wrapped listener, late readers, single and double close) judged for buffer integrity. (2) The same and the other concurrent worlds (relay, listener wrapper, load balancing, UDP, rewind) in a -race build driven by the same seeded scheduler, whose park/release hand-offs are hidden from the detector (runtime.RaceDisable), so two accesses are reported exactly when the repository does not order them; reports with both accesses attributed to repository code are violations, replayable by seed.",
         "the race detector reports each distinct race once per process; the simulator's own (scheduler-serialised, detector-invisible) accesses are reported too and filtered by attribution; the poisoning pool gives the detector sync.Pool's Put->Get edge; one processor count (the schedule does not depend on GOMAXPROCS)"),
}
NA = {
 "C07": "pure function of the ClientHello bytes (differential input testing against crypto/tls): no schedule, clock, fault or interleaving for a simulator to decide; its one schedule-dependent clause is exercised under C06",
 "C14": "verdict on a complete first message vs a reference predicate is a pure function of (message, filter configuration); simulation adds nothing to input generation",
 "C15": "Caddyfile->JSON adaptation and JSON round trip are pure single-threaded functions of the configuration text",
 "C18": "FromBytes/ToBytes inverse laws are pure functions of byte strings",
}
PENDING = []
m = {
 "version": 1,
 "setup_cmd": "./check build",
 "hooks": {
  "guard": "none in source: seams are added at check time by /verif/sim/cmd/simify (go/ast rewrite of a scratch copy) and `go test -overlay`; /repo is never modified by hooks",
  "enable": "./check builds with -overlay <tmp>/overlay.json -modfile <tmp>/go.mod (instrumented copies of layer4, l4proxy, l4tee, l4throttle, go-socks5 + accessor files from /verif/overlay)",
  "baseline_off_cmd": "cd /repo && go test -vet=off -count=1 ./...",
  "source_commits": [],
  "add_only": True,
 },
 "engines": [{"name": "simkit", "path": "/verif/sim", "serves_properties": sorted(CLAIMED), "kind_free_text": "deterministic simulation with fault injection: seeded scheduler over testing/synctest bubbles, simulated network/clock/pools, choice-tape shrinking and replay"}],
 "checks": [],
 "not_applicable": [],
 "notes": "exit 2 from a check means build/harness trouble, never a violation. Fixed defects are recorded in known_findings.json (status fixed) with the replay that found them.",
}
for pid in sorted(CLAIMED):
    ref, text, note = CLAIMED[pid]
    m["checks"].append({
      "property_id": pid,
      "quick_cmd": "./check %s --tier quick" % pid,
      "thorough_cmd": "./check %s --tier thorough" % pid,
      "evidence_file": "/verif/evidence/%s.json" % pid,
      "replay_cmd_template": "./check %s --replay {path}" % pid,
      "engine": "simkit",
      "level_claimed": {"category": "exploration", "text": text, "design_ref": ref},
      "level_note": note,
      "technique": "deterministic simulation with fault injection (seeded schedule/fault search, reference-model oracle, tape shrinking + replay)",
    })
for pid in sorted(NA):
    m["not_applicable"].append({"property_id": pid, "reason": NA[pid]})
for pid in PENDING:
    if pid not in CLAIMED:
        m["not_applicable"].append({"property_id": pid, "reason": "not claimed yet: the simulated world for this property is still under construction (see DESIGN.md §6); no check is registered"})
json.dump(m, open("MANIFEST.json","w"), indent=1)
