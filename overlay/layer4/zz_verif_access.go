// White-box accessors added through `go build -overlay` by /verif.
// They never mutate state the properties talk about.

package layer4

import (
	"net"
	"time"

	"go.uber.org/zap"
)

// VerifNewRoute builds a provisioned Route from in-memory matchers and
// handlers with a fixed matcher order (FromInterface iterates a Go map).
func VerifNewRoute(sets []MatcherSet, handlers []NextHandler) *Route {
	r := &Route{}
	r.matcherSets = MatcherSets(sets)
	for _, h := range handlers {
		r.middleware = append(r.middleware, wrapHandler(h))
	}
	return r
}

// VerifNewServer is Server.Provision without module loading.
func VerifNewServer(routes RouteList, timeout time.Duration, logger *zap.Logger) *Server {
	s := &Server{Routes: routes, logger: logger}
	if timeout <= 0 {
		timeout = MatchingTimeoutDefault
	}
	s.compiledRoute = s.Routes.Compile(s.logger, timeout, nopHandler{})
	return s
}

func (s *Server) VerifServe(ln net.Listener) error           { return s.serve(ln) }
func (s *Server) VerifServePacket(pc net.PacketConn) error   { return s.servePacket(pc) }
func (s *Server) VerifHandle(conn net.Conn)                  { s.handle(conn) }

// VerifNewListenerWrapper is ListenerWrapper.Provision without module loading.
func VerifNewListenerWrapper(routes RouteList, timeout time.Duration, logger *zap.Logger) *ListenerWrapper {
	lw := &ListenerWrapper{Routes: routes, logger: logger}
	if timeout <= 0 {
		timeout = MatchingTimeoutDefault
	}
	lw.compiledRoute = lw.Routes.Compile(lw.logger, timeout, listenerHandler{})
	return lw
}

// VerifBufState exposes the prefetch buffer state (read-only).
func VerifBufState(cx *Connection) (buflen, offset int, matching bool) {
	return len(cx.buf), cx.offset, cx.matching
}

// VerifBufCap exposes the capacity of the prefetch buffer.
func VerifBufCap(cx *Connection) int { return cap(cx.buf) }

const VerifPrefetchChunkSize = prefetchChunkSize
const VerifUDPIdleTimeout = udpAssociationIdleTimeout

// VerifRewind puts the read cursor back to where the router froze it, so that a
// harness wrapper can evaluate a matcher twice on the same bytes (the router
// does the same after every matcher).
func VerifRewind(cx *Connection) { cx.offset = cx.frozenOffset }

// VerifBufBytes returns the whole prefetch buffer (read-only view).
func VerifBufBytes(cx *Connection) []byte { return cx.buf }
