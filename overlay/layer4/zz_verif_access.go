// White-box accessors added through `go build -overlay` by /verif.
// They never mutate state the properties talk about.

package layer4

import (
	"net"
	"time"

	"github.com/caddyserver/caddy/v2"

	"go.uber.org/zap"
)

// VerifNewRoute builds a provisioned Route from in-memory matchers and
// handlers with a fixed matcher order (FromInterface iterates a Go map).
func VerifNewRoute(sets []MatcherSet, handlers []NextHandler) *Route {
	r := &Route{}
	r.matcherSets = MatcherSets(sets)
	for _, h := range handlers {
		r.middleware = append(r.middleware, wrapHandler(h))
	}
	return r
}

// VerifNewServer is Server.Provision without module loading.
func VerifNewServer(routes RouteList, timeout time.Duration, logger *zap.Logger) *Server {
	s := &Server{Routes: routes, logger: logger}
	if timeout <= 0 {
		timeout = MatchingTimeoutDefault
	}
	s.compiledRoute = s.Routes.Compile(s.logger, timeout, nopHandler{})
	return s
}

func (s *Server) VerifServe(ln net.Listener) error           { return s.serve(ln) }
func (s *Server) VerifServePacket(pc net.PacketConn) error   { return s.servePacket(pc) }
func (s *Server) VerifHandle(conn net.Conn)                  { s.handle(conn) }

// VerifNewListenerWrapper provisions a ListenerWrapper around in-memory routes.
// The real Provision runs on an empty route list (so whatever it sets up - logger,
// context, the hand-over handler at the end of the chain - is the shipped code's
// business, not mirrored here); the harness routes are then compiled in front of
// that compiled empty list, which simply passes every connection on to the real
// hand-over handler.
func VerifNewListenerWrapper(ctx caddy.Context, routes RouteList, timeout time.Duration, logger *zap.Logger) *ListenerWrapper {
	if timeout <= 0 {
		timeout = MatchingTimeoutDefault
	}
	lw := &ListenerWrapper{MatchingTimeout: caddy.Duration(timeout)}
	if err := lw.Provision(ctx); err != nil {
		panic(err)
	}
	lw.logger = logger
	lw.Routes = routes
	lw.compiledRoute = routes.Compile(logger, timeout, lw.compiledRoute)
	return lw
}

// VerifBufState exposes the prefetch buffer state (read-only).
func VerifBufState(cx *Connection) (buflen, offset int, matching bool) {
	return len(cx.buf), cx.offset, cx.matching
}

// VerifBufCap exposes the capacity of the prefetch buffer.
func VerifBufCap(cx *Connection) int { return cap(cx.buf) }

const VerifPrefetchChunkSize = prefetchChunkSize
const VerifUDPIdleTimeout = udpAssociationIdleTimeout

// VerifRewind puts the read cursor back to where the router froze it, so that a
// harness wrapper can evaluate a matcher twice on the same bytes (the router
// does the same after every matcher).
func VerifRewind(cx *Connection) { cx.offset = cx.frozenOffset }

// VerifBufBytes returns the whole prefetch buffer (read-only view).
func VerifBufBytes(cx *Connection) []byte { return cx.buf }
