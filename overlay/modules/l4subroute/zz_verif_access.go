package l4subroute

import "go.uber.org/zap"

func (h *Handler) VerifSetLogger(l *zap.Logger) { h.logger = l }
