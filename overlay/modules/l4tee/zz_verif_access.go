package l4tee

import (
	"go.uber.org/zap"

	"github.com/mholt/caddy-l4/layer4"
)

// VerifNew builds a tee handler from in-memory branch handlers.
func VerifNew(branch []layer4.NextHandler, l *zap.Logger) *Handler {
	return &Handler{compiledChain: layer4.Handlers(branch).Compile(), logger: l}
}
