package l4tls

import (
	"github.com/caddyserver/caddy/v2"
	"go.uber.org/zap"
)

func (t *Handler) VerifSet(ctx caddy.Context, l *zap.Logger) { t.ctx = ctx; t.logger = l }

func (m *MatchTLS) VerifSetLogger(l *zap.Logger) { m.logger = l }
