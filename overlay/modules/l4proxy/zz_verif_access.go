package l4proxy

import (
	"sync/atomic"

	"go.uber.org/zap"
)

// VerifPeerState is a read-only view of one peer of an upstream.
type VerifPeerState struct {
	Addr      string
	NumConns  int
	Fails     int
	Unhealthy bool
}

func (u *Upstream) VerifPeers() []VerifPeerState {
	var out []VerifPeerState
	for _, p := range u.peers {
		out = append(out, VerifPeerState{
			Addr:      p.address.JoinHostPort(0),
			NumConns:  int(atomic.LoadInt32(&p.numConns)),
			Fails:     int(atomic.LoadInt32(&p.fails)),
			Unhealthy: atomic.LoadInt32(&p.unhealthy) != 0,
		})
	}
	return out
}

func (u *Upstream) VerifAvailable() bool { return u.available() }
func (u *Upstream) VerifHealthy() bool   { return u.healthy() }
func (u *Upstream) VerifFull() bool      { return u.full() }
func (u *Upstream) VerifTotalConns() int { return u.totalConns() }

func (h *Handler) VerifSetLogger(l *zap.Logger) {
	h.logger = l
	if h.HealthChecks != nil {
		if h.HealthChecks.Active != nil {
			h.HealthChecks.Active.logger = l
		}
		if h.HealthChecks.Passive != nil {
			h.HealthChecks.Passive.logger = l
		}
	}
}

// VerifResetPeers empties the global peer pool between simulated runs
// (a fresh process has an empty pool).
func VerifResetPeers() {
	var keys []any
	peers.Range(func(k, v any) bool { keys = append(keys, k); return true })
	for _, k := range keys {
		for {
			if _, ok := peers.References(k); !ok {
				break
			}
			_, _ = peers.Delete(k)
		}
	}
}
